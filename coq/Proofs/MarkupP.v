(* MarkupP.v - lemmas about Model/Markup.v: the attribute whitelists contain what the
   recovery needs, the event table is rebuilt exactly from its flattening, of_markup is a
   left inverse of to_markup on the envelope, and the cache automaton invariant. *)
From Coq Require Import List Arith Bool String Ascii Lia.
From G Require Import AttrLists.
From M Require Import Markup.
Import ListNotations.
Open Scope string_scope.
Open Scope list_scope.

(* ------------------------------------------------------------------ the generated tables *)
(* Finite facts about the whitelists dumped from /repo (proved by computation over the
   finite table): every attribute the description needs is exported. *)
Lemma state_attributes_cover :
  forallb (fun k => memb k state_attributes)
          ["on_enter"; "on_exit"; "on_final"; "ignore_invalid_triggers"; "final"] = true.
Proof. reflexivity. Qed.
Lemma transition_attributes_cover :
  forallb (fun k => memb k transition_attributes) ["source"; "dest"; "prepare"; "before"; "after"] = true.
Proof. reflexivity. Qed.

(* ------------------------------------------------------------------ generic list facts *)
Lemma assoc_app_none : forall k a b, assoc k a = None -> assoc k (a ++ b) = assoc k b.
Proof.
  induction a as [|[k' v] a IH]; simpl; intros b H; [reflexivity|].
  destruct (k' =? k); [discriminate|auto].
Qed.

Lemma assoc_convert : forall get keys k,
  assoc k (convert get keys) = if memb k keys then get k else None.
Proof.
  intros get keys k. unfold convert. induction keys as [|a keys IH]; simpl; [reflexivity|].
  destruct (a =? k) eqn:E.
  - apply String.eqb_eq in E. subst a. simpl.
    destruct (get k) eqn:G; simpl.
    + rewrite String.eqb_refl. reflexivity.
    + rewrite IH. destruct (memb k keys); reflexivity.
  - simpl. destruct (get a) eqn:G; simpl.
    + rewrite E. exact IH.
    + exact IH.
Qed.

Lemma filter_true : forall {A} (f : A -> bool) l, forallb f l = true -> filter f l = l.
Proof.
  induction l as [|x l IH]; simpl; intro H; [reflexivity|].
  apply andb_true_iff in H. destruct H as [H1 H2]. rewrite H1, IH; auto.
Qed.

Lemma forallb_flat_map : forall {A B} (f : B -> bool) (g : A -> list B) l,
  forallb f (flat_map g l) = forallb (fun x => forallb f (g x)) l.
Proof.
  induction l as [|x l IH]; simpl; [reflexivity|]. rewrite forallb_app, IH. reflexivity.
Qed.
Lemma forallb_map : forall {A B} (f : B -> bool) (g : A -> B) l,
  forallb f (map g l) = forallb (fun x => f (g x)) l.
Proof. induction l as [|x l IH]; simpl; [reflexivity|]. rewrite IH. reflexivity. Qed.
Lemma forallb_impl : forall {A} (f g : A -> bool) l,
  (forall x, f x = true -> g x = true) -> forallb f l = true -> forallb g l = true.
Proof.
  induction l as [|x l IH]; simpl; intros Himp H; [reflexivity|].
  apply andb_true_iff in H. destruct H as [H1 H2]. rewrite (Himp _ H1), IH; auto.
Qed.

Lemma clean_ok : forall l, names_ok l = true -> clean l = l.
Proof. intros l H. apply filter_true. exact H. Qed.

Lemma memb_app : forall x l1 l2, memb x (l1 ++ l2) = memb x l1 || memb x l2.
Proof.
  induction l1 as [|y l1 IH]; simpl; intros; [reflexivity|]. rewrite IH, orb_assoc. reflexivity.
Qed.

Lemma nodupb_mid : forall l1 x l2, nodupb (l1 ++ x :: l2) = true -> memb x l1 = false.
Proof.
  induction l1 as [|a l1 IH]; simpl; intros x l2 H; [reflexivity|].
  apply andb_true_iff in H. destruct H as [H1 H2].
  apply negb_true_iff in H1. rewrite memb_app in H1. simpl in H1.
  apply orb_false_iff in H1. destruct H1 as [_ H1]. apply orb_false_iff in H1. destruct H1 as [H1 _].
  rewrite String.eqb_sym, H1. simpl. eapply IH; eauto.
Qed.

(* ------------------------------------------------------------------ event tables *)
Lemma ins_src_new : forall t sm, memb (t_source t) (map fst sm) = false ->
  ins_src t sm = sm ++ [(t_source t, [t])].
Proof.
  induction sm as [|[s ts] sm IH]; simpl; intro H; [reflexivity|].
  apply orb_false_iff in H. destruct H as [H1 H2]. rewrite H1, IH; auto.
Qed.
Lemma ins_src_last : forall t sm ts r, memb (t_source t) (map fst sm) = false ->
  ins_src t (sm ++ (t_source t, ts) :: r) = sm ++ (t_source t, ts ++ [t]) :: r.
Proof.
  induction sm as [|[s ts'] sm IH]; simpl; intros ts r H.
  - rewrite String.eqb_refl. reflexivity.
  - apply orb_false_iff in H. destruct H as [H1 H2]. rewrite H1, IH; auto.
Qed.
Lemma ins_ev_new : forall e t evs, memb e (map fst evs) = false ->
  ins_ev e t evs = evs ++ [(e, [(t_source t, [t])])].
Proof.
  induction evs as [|[e' sm] evs IH]; simpl; intro H; [reflexivity|].
  apply orb_false_iff in H. destruct H as [H1 H2]. rewrite H1, IH; auto.
Qed.
Lemma ins_ev_last : forall e t evs sm r, memb e (map fst evs) = false ->
  ins_ev e t (evs ++ (e, sm) :: r) = evs ++ (e, ins_src t sm) :: r.
Proof.
  induction evs as [|[e' sm'] evs IH]; simpl; intros sm r H.
  - rewrite String.eqb_refl. reflexivity.
  - apply orb_false_iff in H. destruct H as [H1 H2]. rewrite H1, IH; auto.
Qed.

Lemma add_all_app : forall a b evs, add_all (a ++ b) evs = add_all b (add_all a evs).
Proof. intros. unfold add_all. apply fold_left_app. Qed.

Definition src_is (s : string) (t : trans) : bool := t_source t =? s.

Lemma run_same_source : forall e s ts2 ts1 evs1 sm1,
  memb e (map fst evs1) = false -> memb s (map fst sm1) = false ->
  forallb (src_is s) ts2 = true ->
  add_all (map (pair e) ts2) (evs1 ++ [(e, sm1 ++ [(s, ts1)])]) = evs1 ++ [(e, sm1 ++ [(s, ts1 ++ ts2)])].
Proof.
  induction ts2 as [|t ts2 IH]; intros ts1 evs1 sm1 He Hs Hall; simpl.
  - rewrite app_nil_r. reflexivity.
  - simpl in Hall. apply andb_true_iff in Hall. destruct Hall as [Ht Hall].
    unfold src_is in Ht. apply String.eqb_eq in Ht.
    subst s.
    change (add_all (map (pair e) ts2) (ins_ev e t (evs1 ++ [(e, sm1 ++ [(t_source t, ts1)])])) =
            evs1 ++ [(e, sm1 ++ [(t_source t, ts1 ++ t :: ts2)])]).
    rewrite ins_ev_last by exact He.
    rewrite ins_src_last by exact Hs.
    rewrite IH by assumption. rewrite <- app_assoc. reflexivity.
Qed.

Definition entry_ok (st : string * list trans) : bool :=
  match snd st with [] => false | _ => true end && forallb (src_is (fst st)) (snd st).

Lemma run_srcmap : forall e sm2 sm1 evs1,
  memb e (map fst evs1) = false -> nodupb (map fst (sm1 ++ sm2)) = true ->
  forallb entry_ok sm2 = true ->
  add_all (flat_sm e sm2) (evs1 ++ [(e, sm1)]) = evs1 ++ [(e, sm1 ++ sm2)].
Proof.
  induction sm2 as [|[s ts] sm2 IH]; intros sm1 evs1 He Hnd Hok.
  - simpl. rewrite app_nil_r. reflexivity.
  - simpl in Hok. apply andb_true_iff in Hok. destruct Hok as [Hent Hok].
    unfold entry_ok in Hent. simpl in Hent. apply andb_true_iff in Hent. destruct Hent as [Hne Hsrc].
    destruct ts as [|t ts]; [discriminate|].
    assert (Hs : memb s (map fst sm1) = false).
    { rewrite map_app in Hnd. simpl in Hnd. eapply nodupb_mid; eauto. }
    simpl in Hsrc. apply andb_true_iff in Hsrc. destruct Hsrc as [Ht Hsrc].
    unfold src_is in Ht. apply String.eqb_eq in Ht.
    unfold flat_sm. simpl. fold (flat_sm e sm2).
    change (add_all ((e, t) :: map (pair e) ts ++ flat_sm e sm2) (evs1 ++ [(e, sm1)]))
      with (add_all (map (pair e) ts ++ flat_sm e sm2) (ins_ev e t (evs1 ++ [(e, sm1)]))).
    rewrite ins_ev_last by exact He.
    subst s. rewrite ins_src_new by exact Hs.
    rewrite add_all_app.
    rewrite run_same_source by assumption. simpl.
    rewrite IH.
    + rewrite <- app_assoc. reflexivity.
    + exact He.
    + rewrite <- app_assoc. exact Hnd.
    + exact Hok.
Qed.

Definition event_ok (ev : string * srcmap) : bool :=
  match snd ev with [] => false | _ => true end
  && nodupb (map fst (snd ev)) && forallb entry_ok (snd ev).

Lemma run_events : forall evs2 evs1,
  nodupb (map fst (evs1 ++ evs2)) = true -> forallb event_ok evs2 = true ->
  add_all (flatten evs2) evs1 = evs1 ++ evs2.
Proof.
  induction evs2 as [|[e sm] evs2 IH]; intros evs1 Hnd Hok.
  - simpl. rewrite app_nil_r. reflexivity.
  - simpl in Hok. apply andb_true_iff in Hok. destruct Hok as [Hev Hok].
    unfold event_ok in Hev. simpl in Hev.
    apply andb_true_iff in Hev. destruct Hev as [Hev Hents].
    apply andb_true_iff in Hev. destruct Hev as [Hne Hnds].
    destruct sm as [|[s ts] sm]; [discriminate|].
    assert (He : memb e (map fst evs1) = false).
    { rewrite map_app in Hnd. simpl in Hnd. eapply nodupb_mid; eauto. }
    simpl in Hents. apply andb_true_iff in Hents. destruct Hents as [Hent Hents].
    unfold entry_ok in Hent. simpl in Hent. apply andb_true_iff in Hent. destruct Hent as [Hne2 Hsrc].
    destruct ts as [|t ts]; [discriminate|].
    simpl in Hsrc. apply andb_true_iff in Hsrc. destruct Hsrc as [Ht Hsrc].
    unfold src_is in Ht. apply String.eqb_eq in Ht.
    unfold flatten. simpl. fold (flatten evs2). unfold flat_sm at 1. simpl. fold (flat_sm e sm).
    change (add_all ((e, t) :: (map (pair e) ts ++ flat_sm e sm) ++ flatten evs2) evs1)
      with (add_all ((map (pair e) ts ++ flat_sm e sm) ++ flatten evs2) (ins_ev e t evs1)).
    rewrite ins_ev_new by exact He. subst s.
    rewrite !add_all_app.
    pose proof (run_same_source e (t_source t) ts [t] evs1 [] He eq_refl Hsrc) as K.
    cbn [app] in K. unfold srcmap in *. rewrite K.
    rewrite (run_srcmap e sm [(t_source t, t :: ts)] evs1 He Hnds Hents).
    simpl. rewrite IH.
    + rewrite <- app_assoc. reflexivity.
    + rewrite <- app_assoc. exact Hnd.
    + exact Hok.
Qed.

Lemma rebuild_flatten : forall evs,
  nodupb (map fst evs) = true -> forallb event_ok evs = true -> add_all (flatten evs) [] = evs.
Proof. intros evs H1 H2. rewrite (run_events evs []); auto. Qed.

(* ------------------------------------------------------------------ transitions *)
Definition tr_ok (t : trans) : bool :=
  nonempty_str (t_source t)
  && (match t_dest t with Some d => nonempty_str d | None => true end)
  && names_ok (t_conditions t) && names_ok (t_unless t).

Lemma wf_trans_split : forall s t, wf_trans s t = true -> src_is s t = true /\ tr_ok t = true.
Proof.
  intros s t H. unfold wf_trans in H. unfold tr_ok, src_is.
  repeat (apply andb_true_iff in H; destruct H as [H ?]).
  pose proof H as E. apply String.eqb_eq in E. rewrite E.
  split; [apply String.eqb_refl|].
  rewrite H3, H2, H1, H0. reflexivity.
Qed.

Lemma ta_source : forall t, assoc "source" (convert (trans_attr t) transition_attributes) = truthy_str (t_source t).
Proof. intro t. rewrite assoc_convert. reflexivity. Qed.
Lemma ta_dest : forall t, assoc "dest" (convert (trans_attr t) transition_attributes)
                          = match t_dest t with Some d => truthy_str d | None => None end.
Proof. intro t. rewrite assoc_convert. reflexivity. Qed.
Lemma ta_prepare : forall t, assoc "prepare" (convert (trans_attr t) transition_attributes) = truthy_list (t_prepare t).
Proof. intro t. rewrite assoc_convert. reflexivity. Qed.
Lemma ta_before : forall t, assoc "before" (convert (trans_attr t) transition_attributes) = truthy_list (t_before t).
Proof. intro t. rewrite assoc_convert. reflexivity. Qed.
Lemma ta_after : forall t, assoc "after" (convert (trans_attr t) transition_attributes) = truthy_list (t_after t).
Proof. intro t. rewrite assoc_convert. reflexivity. Qed.

Lemma truthy_list_back : forall l,
  match truthy_list l with Some (AList l') => l' | Some (AStr s) => [s] | _ => [] end = l.
Proof. destruct l; reflexivity. Qed.
Lemma opt_list_back : forall l, match opt_list l with Some l' => l' | None => [] end = l.
Proof. destruct l; reflexivity. Qed.
Lemma truthy_str_ne : forall s, nonempty_str s = true -> truthy_str s = Some (AStr s).
Proof. intros s H. unfold truthy_str, nonempty_str in *. destruct (s =? ""); [discriminate|reflexivity]. Qed.

Lemma of_conv_trans : forall e t, tr_ok t = true -> of_ktrans (conv_trans (e, t)) = (e, t).
Proof.
  intros e t H. unfold tr_ok in H.
  repeat (apply andb_true_iff in H; destruct H as [H ?]).
  unfold of_ktrans, conv_trans. cbn [fst snd kt_trigger kt_attrs kt_conditions kt_unless].
  unfold a_str, a_optstr, a_list.
  rewrite ta_source, ta_dest, ta_prepare, ta_before, ta_after.
  rewrite (truthy_str_ne _ H).
  rewrite !clean_ok by assumption. rewrite !opt_list_back, !truthy_list_back.
  destruct t as [src dst c u p b a]. cbn in *.
  destruct dst as [d|]; [rewrite (truthy_str_ne _ H2)|]; reflexivity.
Qed.

Lemma wf_events_flatten_ok : forall omit evs,
  wf_events omit evs = true -> forallb (fun et => tr_ok (snd et)) (flatten evs) = true.
Proof.
  intros omit evs H. unfold wf_events in H. apply andb_true_iff in H. destruct H as [_ H].
  unfold flatten. rewrite forallb_flat_map. eapply forallb_impl; [|exact H].
  intros [e sm] Hev. cbn [fst snd] in *.
  apply andb_true_iff in Hev. destruct Hev as [Hev _]. apply andb_true_iff in Hev. destruct Hev as [_ Hsm].
  unfold wf_srcmap in Hsm. apply andb_true_iff in Hsm. destruct Hsm as [_ Hsm].
  unfold flat_sm. rewrite forallb_flat_map. eapply forallb_impl; [|exact Hsm].
  intros [s ts] Hst. cbn [fst snd] in *. apply andb_true_iff in Hst. destruct Hst as [_ Hts].
  rewrite forallb_map. eapply forallb_impl; [|exact Hts].
  intros t Ht. cbn [snd]. apply wf_trans_split in Ht. tauto.
Qed.

Lemma wf_events_event_ok : forall omit evs,
  wf_events omit evs = true -> nodupb (map fst evs) = true /\ forallb event_ok evs = true.
Proof.
  intros omit evs H. unfold wf_events in H. apply andb_true_iff in H. destruct H as [Hnd H].
  split; [exact Hnd|]. eapply forallb_impl; [|exact H].
  intros [e sm] Hev. cbn [fst snd] in *.
  apply andb_true_iff in Hev. destruct Hev as [Hev _]. apply andb_true_iff in Hev. destruct Hev as [Hne Hsm].
  unfold wf_srcmap in Hsm. apply andb_true_iff in Hsm. destruct Hsm as [Hnds Hsm].
  unfold event_ok. cbn [snd]. rewrite Hne, Hnds. simpl.
  eapply forallb_impl; [|exact Hsm].
  intros [s ts] Hst. cbn [fst snd] in *. apply andb_true_iff in Hst. destruct Hst as [Hne2 Hts].
  unfold entry_ok. cbn [fst snd]. rewrite Hne2. simpl.
  eapply forallb_impl; [|exact Hts]. intros t Ht. apply wf_trans_split in Ht. tauto.
Qed.

Lemma wf_events_no_omit : forall omit evs,
  wf_events omit evs = true -> filter (fun ev => negb (omit ev)) evs = evs.
Proof.
  intros omit evs H. unfold wf_events in H. apply andb_true_iff in H. destruct H as [_ H].
  apply filter_true. eapply forallb_impl; [|exact H].
  intros ev Hev. apply andb_true_iff in Hev. tauto.
Qed.

Lemma map_of_conv : forall l, forallb (fun et => tr_ok (snd et)) l = true ->
  map of_ktrans (map conv_trans l) = l.
Proof.
  induction l as [|[e t] l IH]; simpl; intro H; [reflexivity|].
  apply andb_true_iff in H. destruct H as [H1 H2].
  rewrite (of_conv_trans e t H1), IH; auto.
Qed.

(* the event table is recovered exactly from the exported transition list *)
Lemma build_conv_events : forall omit evs, wf_events omit evs = true ->
  build_events (conv_events omit evs) = evs.
Proof.
  intros omit evs H. unfold build_events, conv_events.
  rewrite (wf_events_no_omit _ _ H).
  rewrite map_of_conv by (eapply wf_events_flatten_ok; eauto).
  destruct (wf_events_event_ok _ _ H) as [H1 H2].
  apply rebuild_flatten; assumption.
Qed.

(* ------------------------------------------------------------------ states *)
Section state_induction.
  Variable P : state -> Prop.
  Hypothesis H : forall n en ex fi ig fl ini ch evs, Forall P ch -> P (State n en ex fi ig fl ini ch evs).
  Fixpoint state_ind2 (s : state) : P s :=
    match s with
    | State n en ex fi ig fl ini ch evs =>
        H n en ex fi ig fl ini ch evs
          ((fix go (l : list state) : Forall P l :=
              match l with
              | [] => Forall_nil P
              | x :: r => Forall_cons x (state_ind2 x) (go r)
              end) ch)
    end.
End state_induction.

Lemma sa_on_enter : forall hsm s,
  assoc "on_enter" (convert (state_attr hsm s) state_attributes) = truthy_list (s_on_enter s).
Proof. intros. rewrite assoc_convert. reflexivity. Qed.
Lemma sa_on_exit : forall hsm s,
  assoc "on_exit" (convert (state_attr hsm s) state_attributes) = truthy_list (s_on_exit s).
Proof. intros. rewrite assoc_convert. reflexivity. Qed.
Lemma sa_on_final : forall hsm s,
  assoc "on_final" (convert (state_attr hsm s) state_attributes)
  = if hsm then truthy_list (s_on_final s) else None.
Proof. intros. rewrite assoc_convert. reflexivity. Qed.
Lemma sa_ignore : forall hsm s,
  assoc "ignore_invalid_triggers" (convert (state_attr hsm s) state_attributes)
  = match s_ignore s with Some true => Some (ABool true) | _ => None end.
Proof. intros. rewrite assoc_convert. reflexivity. Qed.
Lemma sa_final : forall hsm s,
  assoc "final" (convert (state_attr hsm s) state_attributes)
  = if s_final s then Some (ABool true) else None.
Proof. intros. rewrite assoc_convert. reflexivity. Qed.

Lemma truthy_init_wf : forall i, wf_init i = true -> truthy_init i = i.
Proof.
  intros [[s|l]|]; simpl; intro H; try reflexivity.
  - unfold nonempty_str in H. destruct (s =? ""); [discriminate|reflexivity].
  - destruct l; [discriminate|reflexivity].
Qed.

Lemma flag_back : forall mign f, flag_ok mign f = true ->
  match (match f with Some true => Some (ABool true) | _ => None end) with
  | Some (ABool b) => Some b | _ => mign end = f.
Proof. intros [[|]|] [[|]|]; simpl; intro H; try discriminate; reflexivity. Qed.

Lemma map_id_Forall : forall {A} (f : A -> A) (P : A -> bool) l,
  Forall (fun x => P x = true -> f x = x) l -> forallb P l = true -> map f l = l.
Proof.
  induction l as [|x l IH]; simpl; intros HF HP; [reflexivity|].
  apply andb_true_iff in HP. destruct HP as [H1 H2]. inversion HF; subst.
  rewrite H3, IH; auto.
Qed.

Lemma of_conv_attrs : forall (hsm : bool) (mign : option bool) (s : state),
  flag_ok mign (s_ignore s) = true ->
  (if hsm then true else match s_on_final s with [] => true | _ => false end) = true ->
  let a := convert (state_attr hsm s) state_attributes in
  a_list "on_enter" a = s_on_enter s /\ a_list "on_exit" a = s_on_exit s /\ a_list "on_final" a = s_on_final s
  /\ match assoc "ignore_invalid_triggers" a with Some (ABool b) => Some b | _ => mign end = s_ignore s
  /\ match assoc "final" a with Some (ABool b) => b | _ => false end = s_final s.
Proof.
  intros hsm mign s Hf Hfin a. subst a. unfold a_list.
  rewrite sa_on_enter, sa_on_exit, sa_on_final, sa_ignore, sa_final.
  rewrite !truthy_list_back.
  repeat split.
  - destruct hsm; [apply truthy_list_back|]. destruct (s_on_final s); [reflexivity|discriminate].
  - apply flag_back. exact Hf.
  - destruct (s_final s); reflexivity.
Qed.

Lemma of_conv_state : forall hsm mign root s,
  wf_state hsm mign root s = true -> of_kstate mign (conv_state hsm root s) = s.
Proof.
  intros hsm mign root s. induction s as [n en ex fi ig fl ini ch evs IH] using state_ind2.
  intro W. cbn [wf_state s_ignore s_initial s_on_final s_children s_events] in W.
  apply andb_true_iff in W. destruct W as [W Wch].
  apply andb_true_iff in W. destruct W as [W Wfin].
  apply andb_true_iff in W. destruct W as [Wflag Winit].
  pose proof (of_conv_attrs hsm mign (State n en ex fi ig fl ini ch evs) Wflag Wfin) as A.
  cbn zeta in A. cbn [s_on_enter s_on_exit s_on_final s_ignore s_final] in A.
  destruct A as (A1 & A2 & A3 & A4 & A5).
  destruct ch as [|c ch].
  - cbn [conv_state s_children s_name]. cbn [of_kstate ks_name ks_attrs ks_initial ks_children ks_transitions map].
    rewrite A1, A2, A3, A4, A5.
    destruct ini; [discriminate|]. destruct evs; [|discriminate]. reflexivity.
  - apply andb_true_iff in Wch. destruct Wch as [Wch Wkids].
    apply andb_true_iff in Wch. destruct Wch as [Whsm Wev].
    cbn [conv_state s_children s_name s_initial s_events].
    cbn [of_kstate ks_name ks_attrs ks_initial ks_children ks_transitions].
    rewrite A1, A2, A3, A4, A5.
    rewrite (truthy_init_wf _ Winit).
    rewrite (build_conv_events _ _ Wev).
    rewrite map_map.
    rewrite (map_id_Forall (fun x => of_kstate mign (conv_state hsm root x)) (wf_state hsm mign root) (c :: ch) IH Wkids).
    reflexivity.
Qed.

(* ------------------------------------------------------------------ models *)
Section mstate_induction.
  Variable P : mstate -> Prop.
  Hypothesis HS : forall p, P (MS p).
  Hypothesis HL : forall l, Forall P l -> P (ML l).
  Fixpoint mstate_ind2 (m : mstate) : P m :=
    match m with
    | MS p => HS p
    | ML l => HL l ((fix go (l : list mstate) : Forall P l :=
                       match l with
                       | [] => Forall_nil P
                       | x :: r => Forall_cons x (mstate_ind2 x) (go r)
                       end) l)
    end.
End mstate_induction.

Lemma strs_eqb_eq : forall x y, strs_eqb x y = true -> x = y.
Proof.
  induction x as [|u x IH]; destruct y as [|v y]; simpl; intro H; try discriminate; [reflexivity|].
  apply andb_true_iff in H. destruct H as [H1 H2]. apply String.eqb_eq in H1. subst. f_equal. auto.
Qed.

Lemma mstate_eqb_eq : forall a b, mstate_eqb a b = true -> a = b.
Proof.
  induction a as [p|l IH] using mstate_ind2; destruct b as [q|k]; simpl; intro H; try discriminate.
  - f_equal. apply strs_eqb_eq. exact H.
  - f_equal. revert k H. induction IH as [|x l Hx HF IHl]; destruct k as [|y k]; intro H; try discriminate.
    + reflexivity.
    + apply andb_true_iff in H. destruct H as [H1 H2]. f_equal; [apply Hx; exact H1|apply IHl; exact H2].
Qed.

(* ------------------------------------------------------------------ the machine *)
Lemma conv_name_back : forall m, match conv_name m with Some n => n | None => "" end = m_name m.
Proof.
  intro m. unfold conv_name. destruct (m_name m =? "") eqn:E; [|reflexivity].
  apply String.eqb_eq in E. symmetry. exact E.
Qed.

Lemma map_id_forallb : forall {A} (f : A -> A) (P : A -> bool) l,
  (forall x, P x = true -> f x = x) -> forallb P l = true -> map f l = l.
Proof.
  induction l as [|x l IH]; simpl; intros Hf HP; [reflexivity|].
  apply andb_true_iff in HP. destruct HP as [H1 H2]. rewrite Hf, IH; auto.
Qed.

Lemma exports_auto_off : forall hsm auto attr,
  hsm || negb auto || (attr =? "state") = true -> exports_auto hsm auto attr = false.
Proof.
  intros hsm auto attr H. unfold exports_auto.
  destruct hsm; [reflexivity|]. destruct auto; [|reflexivity]. simpl in *. rewrite H. reflexivity.
Qed.

Lemma of_to_markup : forall m, wf_machine m = true -> of_markup (m_hsm m) (to_markup m) = m.
Proof.
  intros m W. unfold wf_machine in W.
  repeat (apply andb_true_iff in W; let H := fresh "W" in destruct W as [W H]).
  destruct m as [hsm sts evs ini name bsc asc pe fe oe ofi send auto attr ovr ign qd mds].
  cbn [m_hsm m_states m_events m_initial m_name m_bsc m_asc m_pe m_fe m_oe m_of m_send m_auto m_attr
       m_override m_ignore m_queued m_models] in *.
  unfold of_markup, to_markup, conv_states, conv_transitions.
  cbn [m_hsm m_states m_events m_initial m_name m_bsc m_asc m_pe m_fe m_oe m_of m_send m_auto m_attr
       m_override m_ignore m_queued m_models
       k_bsc k_asc k_pe k_fe k_oe k_of k_send k_auto k_attr k_override k_ignore k_queued k_models
       k_initial k_name k_transitions k_states].
  rewrite conv_name_back. cbn [m_name].
  rewrite exports_auto_off by assumption.
  match goal with |- context [add_all (map of_ktrans ?l) []] =>
    change (add_all (map of_ktrans l) []) with (build_events l) end.
  rewrite !clean_ok by assumption.
  rewrite map_map.
  rewrite (map_id_forallb (fun x => of_kstate ign (conv_state hsm sts x)) (wf_state hsm ign sts) sts
             (fun x Hx => of_conv_state hsm ign sts x Hx)) by assumption.
  rewrite build_conv_events by assumption.
  destruct ini as [i|]; [|discriminate].
  rewrite (truthy_init_wf (Some i)) by assumption.
  rewrite map_map.
  rewrite (map_id_forallb (fun x => of_kmodel hsm sts (conv_model x))
             (fun md => mstate_eqb (resolve_model hsm sts (md_state md)) (md_state md)) mds).
  - reflexivity.
  - intros [st cls] Hx. unfold of_kmodel, conv_model. cbn [km_state km_class md_state md_class] in *.
    apply mstate_eqb_eq in Hx. rewrite Hx. reflexivity.
  - assumption.
Qed.

(* ------------------------------------------------------------------ the cache automaton *)
Definition statics (m : machine) :=
  (clean (m_bsc m), clean (m_asc m), clean (m_pe m), clean (m_fe m), clean (m_oe m), clean (m_of m),
   m_send m, m_auto m, m_attr m, m_override m, m_ignore m, m_queued m).
Definition cstatics (c : markup) :=
  (k_bsc c, k_asc c, k_pe c, k_fe c, k_oe c, k_of c, k_send c, k_auto c, k_attr c, k_override c,
   k_ignore c, k_queued c).
Definition fresh_ok (m : machine) (c : markup) : Prop :=
  k_initial c = truthy_init (m_initial m) /\ k_name c = conv_name m
  /\ k_transitions c = conv_transitions m /\ k_states c = conv_states m.
Definition Inv (x : mm) : Prop :=
  cstatics (cache x) = statics (mach x)
  /\ (k_initial (cache x) = None \/ k_initial (cache x) = truthy_init (m_initial (mach x)))
  /\ (k_name (cache x) = None \/ k_name (cache x) = conv_name (mach x))
  /\ (dirty x = false -> fresh_ok (mach x) (cache x)).

Local Arguments conv_states : simpl never.
Local Arguments conv_transitions : simpl never.
Local Arguments conv_name : simpl never.
Local Arguments clean : simpl never.
Local Arguments truthy_init : simpl never.

Lemma getter_spec : forall x, Inv x ->
  snd (getter x) = to_markup (mach x) /\ Inv (fst (getter x)) /\ mach (fst (getter x)) = mach x.
Proof.
  intros [m c d] (Hs & Hi & Hn & Hf).
  destruct c as [bsc asc pe fe oe ofi send auto attr ovr ign qd mds ini name trs sts].
  unfold cstatics, statics in Hs. cbn [mach cache dirty k_bsc k_asc k_pe k_fe k_oe k_of k_send k_auto
    k_attr k_override k_ignore k_queued k_initial k_name k_transitions k_states] in *.
  inversion Hs; subst; clear Hs.
  assert (E : snd (getter (mkMM m (mkMarkup (clean (m_bsc m)) (clean (m_asc m)) (clean (m_pe m)) (clean (m_fe m))
                 (clean (m_oe m)) (clean (m_of m)) (m_send m) (m_auto m) (m_attr m) (m_override m)
                 (m_ignore m) (m_queued m) mds ini name trs sts) d)) = to_markup m).
  { unfold getter, to_markup, refresh, set_models. cbn [mach cache dirty snd k_bsc k_asc k_pe k_fe k_oe k_of k_send
      k_auto k_attr k_override k_ignore k_queued k_initial k_name k_transitions k_states k_models].
    destruct d.
    - cbn [k_bsc k_asc k_pe k_fe k_oe k_of k_send k_auto k_attr k_override k_ignore k_queued k_initial k_name
           k_transitions k_states k_models].
      f_equal.
      + destruct (truthy_init (m_initial m)) eqn:E; [reflexivity|]. destruct Hi as [Hi|Hi]; exact Hi.
      + destruct (conv_name m) eqn:E; [reflexivity|]. destruct Hn as [Hn|Hn]; exact Hn.
    - destruct (Hf eq_refl) as (F1 & F2 & F3 & F4). cbn [k_initial k_name k_transitions k_states] in *.
      subst. reflexivity. }
  split; [exact E|]. split; [|reflexivity].
  match goal with |- Inv (fst (getter ?x)) =>
    replace (fst (getter x)) with (mkMM (mach x) (snd (getter x)) false) by reflexivity end.
  rewrite E. cbn [mach].
  unfold Inv, cstatics, statics, fresh_ok, to_markup.
  cbn [mach cache dirty k_bsc k_asc k_pe k_fe k_oe k_of k_send k_auto k_attr k_override k_ignore k_queued
    k_initial k_name k_transitions k_states k_models].
  repeat split; auto.
Qed.

Lemma apply_op_static : forall o m, op_in_envelope o = true ->
  statics (apply_op o m) = statics m
  /\ truthy_init (m_initial (apply_op o m)) = truthy_init (m_initial m)
  /\ conv_name (apply_op o m) = conv_name m.
Proof.
  intros o m H. destruct o; try discriminate; cbn [apply_op]; try (repeat split; reflexivity).
  destruct (m_hsm m); repeat split; reflexivity.
Qed.

Lemma apply_op_quiet : forall o m, op_in_envelope o = true -> invalidates o = false ->
  conv_transitions (apply_op o m) = conv_transitions m /\ conv_states (apply_op o m) = conv_states m.
Proof.
  intros o m H1 H2. destruct o; try discriminate; cbn [apply_op]; split; reflexivity.
Qed.

Lemma step_other : forall o x, op_in_envelope o = true -> Inv x ->
  Inv (mkMM (apply_op o (mach x)) (cache x) (dirty x || invalidates o)).
Proof.
  intros o x He (Hs & Hi & Hn & Hf).
  destruct (apply_op_static o (mach x) He) as (S1 & S2 & S3).
  unfold Inv. cbn [mach cache dirty]. rewrite S1, S2, S3.
  split; [exact Hs|]. split; [exact Hi|]. split; [exact Hn|].
  intro Hd. apply orb_false_iff in Hd. destruct Hd as [Hd Hq].
  destruct (Hf Hd) as (F1 & F2 & F3 & F4).
  destruct (apply_op_quiet o (mach x) He Hq) as (Q1 & Q2).
  unfold fresh_ok. rewrite S2, S3, Q1, Q2. auto.
Qed.

Lemma step_inv : forall o x, op_in_envelope o = true -> Inv x -> Inv (step x o).
Proof.
  intros o x He HI.
  destruct o; try discriminate; try (apply getter_spec; exact HI);
    (match goal with |- Inv (step x ?o) =>
       change (step x o) with (mkMM (apply_op o (mach x)) (cache x) (dirty x || invalidates o)) end;
     apply step_other; [reflexivity|exact HI]).
Qed.

Lemma run_ops_inv : forall ops x, forallb op_in_envelope ops = true -> Inv x -> Inv (run_ops ops x).
Proof.
  induction ops as [|o ops IH]; simpl; intros x H HI; [exact HI|].
  apply andb_true_iff in H. destruct H as [H1 H2]. apply IH; [exact H2|]. apply step_inv; assumption.
Qed.

(* the cache never influences the machine *)
Lemma run_ops_mach : forall ops x,
  mach (run_ops ops x) = fold_left (fun m o => apply_op o m) ops (mach x).
Proof.
  induction ops as [|o ops IH]; simpl; intro x; [reflexivity|].
  rewrite IH. f_equal. destruct o; reflexivity.
Qed.

Lemma construct_inv : forall hsm d, Inv (construct hsm d).
Proof.
  intros. unfold Inv, construct. cbv zeta. cbn [mach cache dirty]. unfold cstatics, statics.
  cbn [k_bsc k_asc k_pe k_fe k_oe k_of k_send k_auto k_attr k_override k_ignore k_queued k_initial k_name].
  repeat split; auto; try congruence.
Qed.

(* description dicts handed to Machine(markup=...): what must hold for the dict to serve as cache *)
Definition wf_markup_static (d : markup) : bool :=
  names_ok (k_bsc d) && names_ok (k_asc d) && names_ok (k_pe d) && names_ok (k_fe d)
  && names_ok (k_oe d) && names_ok (k_of d)
  && wf_init (k_initial d)
  && match k_name d with Some n => nonempty_str n | None => true end.

Lemma construct_markup_inv : forall hsm d, wf_markup_static d = true -> Inv (construct_markup hsm d).
Proof.
  intros hsm d W. unfold wf_markup_static in W.
  repeat (apply andb_true_iff in W; let H := fresh "W" in destruct W as [W H]).
  unfold Inv, construct_markup. cbn [mach cache dirty]. unfold cstatics, statics, of_markup.
  cbn [m_bsc m_asc m_pe m_fe m_oe m_of m_send m_auto m_attr m_override m_ignore m_queued m_initial m_name].
  rewrite !clean_ok by assumption.
  split; [reflexivity|]. split; [|split; [|intro; discriminate]].
  - destruct (k_initial d) as [i|] eqn:E; [right|left; reflexivity].
    symmetry. apply truthy_init_wf. exact W1.
  - destruct (k_name d) as [n|] eqn:E; [right|left; reflexivity].
    unfold conv_name. cbn [m_name]. unfold nonempty_str in W0. destruct (n =? ""); [discriminate|reflexivity].
Qed.

(* C14_current: after any script of operations of the envelope the getter returns the
   markup of the current machine computed from scratch *)
Lemma current_from : forall x ops, Inv x -> forallb op_in_envelope ops = true ->
  snd (getter (run_ops ops x)) = to_markup (fold_left (fun m o => apply_op o m) ops (mach x)).
Proof.
  intros x ops HI H. rewrite <- run_ops_mach. apply getter_spec. apply run_ops_inv; assumption.
Qed.

Lemma current_constructed : forall hsm d ops, forallb op_in_envelope ops = true ->
  snd (getter (run_ops ops (construct hsm d)))
  = to_markup (fold_left (fun m o => apply_op o m) ops (of_markup hsm d)).
Proof. intros. apply (current_from (construct hsm d)); [apply construct_inv|assumption]. Qed.

Lemma current_rebuilt : forall hsm d ops, wf_markup_static d = true -> forallb op_in_envelope ops = true ->
  snd (getter (run_ops ops (construct_markup hsm d)))
  = to_markup (fold_left (fun m o => apply_op o m) ops (of_markup hsm d)).
Proof. intros. apply (current_from (construct_markup hsm d)); [apply construct_markup_inv|]; assumption. Qed.

(* every intermediate read is current as well: reading does not disturb later reads *)
Lemma getter_idempotent : forall x, Inv x -> snd (getter (fst (getter x))) = snd (getter x).
Proof.
  intros x HI. destruct (getter_spec x HI) as (E & HI2 & M).
  destruct (getter_spec _ HI2) as (E2 & _ & _). rewrite E2, M, E. reflexivity.
Qed.

(* ------------------------------------------------------------------ corollaries *)
Lemma faithful_exists : exists recover : bool -> markup -> machine,
  forall m, wf_machine m = true -> recover (m_hsm m) (to_markup m) = m.
Proof. exists of_markup. exact of_to_markup. Qed.

Lemma roundtrip_markup : forall m, wf_machine m = true ->
  to_markup (of_markup (m_hsm m) (to_markup m)) = to_markup m.
Proof. intros m W. rewrite (of_to_markup m W). reflexivity. Qed.

Lemma roundtrip_behaviour : forall m, wf_machine m = true ->
  forall (Obs : Type) (behaves : machine -> Obs), behaves (of_markup (m_hsm m) (to_markup m)) = behaves m.
Proof. intros m W Obs behaves. rewrite (of_to_markup m W). reflexivity. Qed.

(* ------------------------------------------------------------------ non-vacuity and limits *)
Definition st (n : string) (en ex : list string) : state := State n en ex [] None false None [] [].
Definition tr (s : string) (d : option string) (c u p b a : list string) : trans := mkTrans s d c u p b a.

(* a hierarchical machine: compound B (initial x, final child y with on_final, a guarded local
   transition and an internal one), parallel P, root transitions, two models *)
Definition ex_hsm : machine :=
  mkMachine true
    [ st "A" ["enterA"] [];
      State "B" [] ["exitB"] [] (Some true) false (Some (inl "x"))
            [ st "x" [] []; State "y" [] [] ["fin"] None true None [] [] ]
            [ ("go", [("x", [tr "x" (Some "y") ["c1"] ["u1"] [] ["b1"] []])]);
              ("int", [("x", [tr "x" None [] [] ["p1"] [] ["a1"]])]) ];
      State "P" [] [] [] None false (Some (inr ["r"; "s"]))
            [ State "r" [] [] [] None false (Some (inl "a")) [st "a" [] []; st "b" [] []] [];
              st "s" [] [] ] [] ]
    [ ("toB", [("A", [tr "A" (Some "B") [] [] [] [] []]); ("P", [tr "P" (Some "B_y") ["c2"] [] [] [] []])]);
      ("back", [("B_y", [tr "B_y" (Some "A") [] [] [] [] []; tr "B_y" (Some "B_y") [] [] [] [] []])]) ]
    (Some (inl "A")) "mach" ["bsc"] ["asc"] ["pe"] ["fe"] ["oe"] ["of"]
    true true "state" false None QModel
    [ mkModel (MS ["A"]) "c14.ModelA"; mkModel (MS ["B"; "x"]) "c14.ModelB";
      mkModel (ML [MS ["P"; "r"; "a"]; MS ["P"; "s"]]) "c14.ModelA" ].

Lemma ex_hsm_wf : wf_machine ex_hsm = true.
Proof. vm_compute. reflexivity. Qed.
Lemma ex_hsm_nontrivial :
  List.length (k_transitions (to_markup ex_hsm)) = 4 /\ List.length (k_states (to_markup ex_hsm)) = 3.
Proof. vm_compute. split; reflexivity. Qed.

Definition ex_flat : machine :=
  mkMachine false
    [ st "A" ["enterA"] ["exitA"]; State "B" [] [] [] (Some true) true None [] []; st "C" [] [] ]
    [ ("go", [("A", [tr "A" (Some "B") ["c1"] [] [] ["b1"] []; tr "A" (Some "C") [] [] [] [] []]);
              ("B", [tr "B" None [] [] [] [] ["a1"]])]) ]
    (Some (inl "A")) "" [] [] [] [] [] [] false false "status" true None QFalse
    [ mkModel (MS ["C"]) "c14.ModelOA" ].
Lemma ex_flat_wf : wf_machine ex_flat = true.
Proof. vm_compute. reflexivity. Qed.

(* a script inside the envelope: read, add a compound state, add transitions (wildcard source,
   reflexive destination), register callbacks (dynamic methods and the hierarchical
   on_enter(state, cb) helper), read again *)
Definition ex_ops : list op :=
  [ OGet;
    OAddState [] (KState "C" [("on_enter", AList ["k9"])] true (Some (inl "p")) [] [KState "p" [] false None [] []]);
    OAddTrans [] "e5" None DSame ["q1"] [] [] [] [];
    OAddTrans ["B"] "n1" (Some ["x"; "y"]) (DTo "x") [] [] [] ["k1"] [];
    ORegState 2 ["B"; "y"] "k2"; ORegEvent 0 "toB" "k3"; OSetModel 0 (MS ["C"; "p"]); OGet;
    ODirectState 0 ["B"; "x"] "k4"; ORemTrans "back" None None ].
Lemma ex_ops_in_envelope : forallb op_in_envelope ex_ops = true.
Proof. reflexivity. Qed.
Lemma ex_ops_effect :
  List.length (k_states (snd (getter (run_ops ex_ops (construct_markup true (to_markup ex_hsm)))))) = 4
  /\ List.length (k_transitions (snd (getter (run_ops ex_ops (construct_markup true (to_markup ex_hsm)))))) = 6.
Proof. vm_compute. split; reflexivity. Qed.

(* --- limits of the envelope, each with a concrete witness (by computation) --- *)

(* KF-C14-1: a state that explicitly does NOT ignore invalid triggers inside a machine that
   does: the flag is not exported, the rebuilt state inherits the machine's flag, so the
   markup differs after the round trip and the rebuilt machine swallows invalid triggers. *)
Definition kf1 : machine :=
  mkMachine false [State "A" [] [] [] (Some false) false None [] []; st "B" [] []]
            [("go", [("B", [tr "B" (Some "A") [] [] [] [] []])])]
            (Some (inl "A")) "" [] [] [] [] [] [] false false "state" false (Some true) QFalse [].
Lemma roundtrip_refuted_flag :
  exists m, map (fun s => eff_ignore (m_ignore m) (s_ignore s)) (m_states m) = [false; true]
    /\ map (fun s => eff_ignore (m_ignore m) (s_ignore s)) (m_states (of_markup (m_hsm m) (to_markup m))) = [true; true]
    /\ map ks_attrs (k_states (to_markup m)) = [[]; []]
    /\ map ks_attrs (k_states (to_markup (of_markup (m_hsm m) (to_markup m))))
       = [[("ignore_invalid_triggers", ABool true)]; [("ignore_invalid_triggers", ABool true)]].
Proof. exists kf1. vm_compute. repeat split; reflexivity. Qed.

(* KF-C14-2: a user event named to_<state> with one transition from every state is taken
   for an automatic transition and not exported at all *)
Definition kf2 : machine :=
  mkMachine false [st "A" [] []; st "B" [] []]
            [("to_B", [("A", [tr "A" (Some "B") ["guard"] [] [] [] []]); ("B", [tr "B" (Some "B") ["guard"] [] [] [] []])])]
            (Some (inl "A")) "" [] [] [] [] [] [] false false "state" false None QFalse [].
Lemma faithful_refuted_auto_name :
  exists m, m_auto m = false /\ List.length (flatten (m_events m)) = 2 /\ k_transitions (to_markup m) = []
            /\ m_events (of_markup (m_hsm m) (to_markup m)) = [].
Proof. exists kf2. vm_compute. repeat split; reflexivity. Qed.

(* the hierarchical on_enter(state, cb) helper right after a read is visible at the next read
   (D29, fixed in /repo: the helper invalidates the cache) *)
Lemma current_direct_example :
  map ks_attrs (k_states (snd (getter (run_ops [OGet; ODirectState 0 ["A"] "late"]
        (construct true (to_markup (mkMachine true [st "A" [] []] [] (Some (inl "A")) "" [] [] [] [] [] []
                                              false false "state" false None QFalse []))))))) 
  = [[("on_enter", AList ["late"])]].
Proof. vm_compute. reflexivity. Qed.

(* documented limit: a machine-level list reassigned after construction is not exported *)
Lemma current_refuted_set_list :
  exists d ops, k_bsc (snd (getter (run_ops ops (construct false d)))) = ["early"]
    /\ k_bsc (to_markup (mach (run_ops ops (construct false d)))) = ["late"].
Proof.
  exists (to_markup (mkMachine false [st "A" [] []] [] (Some (inl "A")) "" ["early"] [] [] [] [] [] false false
                               "state" false None QFalse [])),
         [OSetList 0 ["late"]].
  vm_compute. split; reflexivity.
Qed.

(* documented limit: initial=None is rebuilt with the constructor default 'initial' *)
Lemma roundtrip_refuted_no_initial :
  exists m, m_initial m = None
    /\ map s_name (m_states m) = ["A"]
    /\ map s_name (m_states (of_markup (m_hsm m) (to_markup m))) = ["A"; "initial"].
Proof.
  exists (mkMachine false [st "A" [] []] [] None "" [] [] [] [] [] [] false false "state" false None QFalse []).
  vm_compute. repeat split; reflexivity.
Qed.
