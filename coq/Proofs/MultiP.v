(* MultiP.v — lemmas about Multi.v (several models on one machine). *)
From Coq Require Import List Arith Bool Lia.
From M Require Import Base Flat Multi.
Import ListNotations.

(* ------------------------------------------------------------------ basic facts *)
Ltac splits := repeat match goal with |- _ /\ _ => split end.
Lemma helper_eqb_eq a b : helper_eqb a b = true <-> a = b.
Proof.
  destruct a, b; simpl; split; intro H; try reflexivity; try discriminate;
    try (apply Nat.eqb_eq in H; subst; reflexivity);
    try (inversion H; subst; apply Nat.eqb_refl).
Qed.

Lemma helper_eqb_refl a : helper_eqb a a = true.
Proof. apply helper_eqb_eq; reflexivity. Qed.

Lemma has_helper_In h l : has_helper h l = true <-> In h l.
Proof.
  unfold has_helper. rewrite existsb_exists. split.
  - intros [x [Hi He]]. apply helper_eqb_eq in He. subst. exact Hi.
  - intro Hi. exists h. split; [exact Hi | apply helper_eqb_refl].
Qed.

Lemma has_helper_app h l1 l2 : has_helper h (l1 ++ l2) = has_helper h l1 || has_helper h l2.
Proof. unfold has_helper. apply existsb_app. Qed.

Lemma has_add_helper h l x : has_helper h (add_helper l x) = has_helper h l || helper_eqb h x.
Proof.
  unfold add_helper. destruct (has_helper x l) eqn:E.
  - destruct (helper_eqb h x) eqn:E2.
    + apply helper_eqb_eq in E2. subst. rewrite E. reflexivity.
    + rewrite orb_false_r. reflexivity.
  - rewrite has_helper_app. simpl. rewrite orb_false_r. reflexivity.
Qed.

Lemma has_add_helpers h hs : forall l, has_helper h (add_helpers hs l) = has_helper h l || has_helper h hs.
Proof.
  induction hs as [|x r IH]; intro l; simpl.
  - rewrite orb_false_r. reflexivity.
  - unfold add_helpers in *. simpl. rewrite IH. rewrite has_add_helper.
    rewrite <- orb_assoc. reflexivity.
Qed.

Lemma mem_nat_In x l : mem_nat x l = true <-> In x l.
Proof.
  unfold mem_nat. rewrite existsb_exists. split.
  - intros [y [Hi He]]. apply Nat.eqb_eq in He. subst. exact Hi.
  - intro Hi. exists x. split; [exact Hi | apply Nat.eqb_refl].
Qed.

Lemma mem_nat_false x l : mem_nat x l = false <-> ~ In x l.
Proof. rewrite <- mem_nat_In. destruct (mem_nat x l); intuition congruence. Qed.

Lemma add_key_In l x y : In y (add_key l x) <-> In y l \/ y = x.
Proof.
  unfold add_key. destruct (mem_nat x l) eqn:E.
  - apply mem_nat_In in E. intuition (subst; auto).
  - rewrite in_app_iff. simpl. intuition (subst; auto).
Qed.

Lemma add_key_present l x : In x l -> add_key l x = l.
Proof. intro H. unfold add_key. apply mem_nat_In in H. rewrite H. reflexivity. Qed.

Lemma fold_add_key_In ms : forall l y, In y (fold_left add_key ms l) <-> In y l \/ In y ms.
Proof.
  induction ms as [|x r IH]; intros l y; simpl.
  - intuition.
  - rewrite IH. rewrite add_key_In. intuition (subst; auto).
Qed.

Lemma del_key_In x l y : In y (del_key x l) <-> In y l /\ y <> x.
Proof.
  unfold del_key. rewrite filter_In. split; intros [H1 H2]; split; auto.
  - intro E. subst. rewrite Nat.eqb_refl in H2. discriminate.
  - apply negb_true_iff. apply Nat.eqb_neq. exact H2.
Qed.

Lemma remove_first_In x l y : In y (remove_first x l) -> In y l.
Proof.
  induction l as [|z r IH]; simpl; auto.
  destruct (Nat.eqb z x); simpl; intro H; auto. destruct H; auto.
Qed.

Lemma remove_first_notin x l : NoDup l -> ~ In x (remove_first x l).
Proof.
  induction l as [|z r IH]; simpl; intros Hn H; auto.
  inversion Hn; subst. destruct (Nat.eqb z x) eqn:E.
  - apply Nat.eqb_eq in E. subst. contradiction.
  - simpl in H. destruct H as [H|H].
    + subst. rewrite Nat.eqb_refl in E. discriminate.
    + exact (IH H3 H).
Qed.

Lemma remove_first_other x l y : y <> x -> In y l -> In y (remove_first x l).
Proof.
  induction l as [|z r IH]; simpl; intros Hne H; auto.
  destruct (Nat.eqb z x) eqn:E.
  - apply Nat.eqb_eq in E. subst. destruct H; [congruence | exact H].
  - simpl. destruct H; auto.
Qed.

Lemma remove_first_NoDup x l : NoDup l -> NoDup (remove_first x l).
Proof.
  induction l as [|z r IH]; simpl; intro Hn; auto.
  inversion Hn; subst. destruct (Nat.eqb z x); auto.
  constructor; auto. intro H. apply H1. eapply remove_first_In. exact H.
Qed.

Lemma upd_obj_eq f m o : upd_obj f m o m = o.
Proof. unfold upd_obj. rewrite Nat.eqb_refl. reflexivity. Qed.
Lemma upd_obj_neq f m o x : x <> m -> upd_obj f m o x = f x.
Proof. intro H. unfold upd_obj. apply Nat.eqb_neq in H. rewrite H. reflexivity. Qed.

Lemma lookup_None_notin {A} (l : list (nat * A)) k : lookup l k = None <-> ~ In k (map fst l).
Proof.
  induction l as [|[k' v] r IH]; simpl.
  - split; auto.
  - destruct (Nat.eqb k k') eqn:E.
    + apply Nat.eqb_eq in E. subst. split; [discriminate | intro H; exfalso; apply H; left; reflexivity].
    + apply Nat.eqb_neq in E. rewrite IH. split; intro H.
      * intros [H2|H2]; [apply E; symmetry; exact H2 | exact (H H2)].
      * intro H2. apply H. right. exact H2.
Qed.

Lemma lookup_Some_in {A} (l : list (nat * A)) k v : lookup l k = Some v -> In k (map fst l).
Proof.
  intro H. destruct (in_dec Nat.eq_dec k (map fst l)) as [Hi|Hn]; auto.
  apply lookup_None_notin in Hn. congruence.
Qed.

Lemma set_assoc_keys {A} (l : list (nat * A)) k v x :
  In x (map fst (set_assoc l k v)) <-> In x (map fst l) \/ x = k.
Proof.
  induction l as [|[k' v'] r IH]; simpl.
  - intuition (subst; auto).
  - destruct (Nat.eqb k k') eqn:E; simpl.
    + apply Nat.eqb_eq in E. subst. intuition (subst; auto).
    + rewrite IH. intuition (subst; auto).
Qed.

Lemma lookup_set_assoc_other {A} (l : list (nat * A)) k v k' :
  k' <> k -> lookup (set_assoc l k v) k' = lookup l k'.
Proof.
  intro Hne. induction l as [|[k2 v2] r IH]; simpl.
  - apply Nat.eqb_neq in Hne. rewrite Hne. reflexivity.
  - destruct (Nat.eqb k k2) eqn:E; simpl.
    + apply Nat.eqb_eq in E. subst. apply Nat.eqb_neq in Hne. rewrite Hne. reflexivity.
    + rewrite IH. reflexivity.
Qed.

Lemma lookup_set_assoc_same {A} (l : list (nat * A)) k v : lookup (set_assoc l k v) k = Some v.
Proof.
  induction l as [|[k2 v2] r IH]; simpl.
  - rewrite Nat.eqb_refl. reflexivity.
  - destruct (Nat.eqb k k2) eqn:E; simpl.
    + rewrite Nat.eqb_refl. reflexivity.
    + rewrite E. exact IH.
Qed.

Lemma add_trans_keys evs e t x : In x (map fst (add_trans_to evs e t)) <-> In x (map fst evs) \/ x = e.
Proof.
  unfold add_trans_to. destruct (lookup evs e) eqn:E.
  - rewrite set_assoc_keys. reflexivity.
  - rewrite map_app, in_app_iff. simpl. intuition (subst; auto).
Qed.

(* ------------------------------------------------------------------ every item of an event carries the model *)
Section Tags.
  Variable mc : machine.
  Variable ev : env.
  Variable c : ctx.

  Definition tagged (it : item) : Prop := it_model it = c_model c.
  Definition tags {A} (m : M (V:=state) (S:=state) A) : Prop :=
    forall p s, Forall tagged (fst (fst (m p s))).

  Lemma tags_ret A (a : A) : tags (ret a).
  Proof. intros p s. simpl. constructor. Qed.
  Lemma tags_raise A (e : exn) : tags (@raise state state A e).
  Proof. intros p s. simpl. constructor. Qed.
  Lemma tags_get : tags (@get state state).
  Proof. intros p s. simpl. constructor. Qed.
  Lemma tags_put x : tags (@put state state x).
  Proof. intros p s. simpl. constructor. Qed.

  Lemma tags_bind A B (m : M A) (f : A -> M B) : tags m -> (forall a, tags (f a)) -> tags (bind m f).
  Proof.
    intros Hm Hf p s. unfold bind. specialize (Hm p s).
    destruct (m p s) as [[t1 s1] [e|a]]; simpl in *; auto.
    specialize (Hf a (p + length t1) s1). destruct (f a (p + length t1) s1) as [[t2 s2] r]; simpl in *.
    apply Forall_app. split; assumption.
  Qed.

  Lemma tags_tef A (m : M A) (h : exn -> M A) (fin : option exn -> M unit) :
    tags m -> (forall e, tags (h e)) -> (forall o, tags (fin o)) -> tags (try_except_finally m h fin).
  Proof.
    intros Hm Hh Hf p s. unfold try_except_finally. specialize (Hm p s).
    destruct (m p s) as [[t1 s1] [e|a]]; simpl in *.
    - specialize (Hh e (p + length t1) s1). destruct (h e (p + length t1) s1) as [[t2 s2] r2]; simpl in *.
      specialize (Hf (Some e) (p + length t1 + length t2) s2).
      destruct (fin (Some e) (p + length t1 + length t2) s2) as [[t3 s3] r3]; simpl in *.
      apply Forall_app. split; [assumption|]. apply Forall_app. split; assumption.
    - specialize (Hf None (p + length t1) s1). destruct (fin None (p + length t1) s1) as [[t3 s3] r3]; simpl in *.
      apply Forall_app. split; assumption.
  Qed.

  Lemma tags_call sl err cb : tags (call (fun s : state => s) ev c sl err cb).
  Proof.
    intros p s. unfold call. destruct (r_raise (ev cb p)); simpl; constructor; try constructor; reflexivity.
  Qed.

  Lemma tags_run_cbs sl err cbs : tags (run_cbs (fun s : state => s) ev c sl err cbs).
  Proof.
    induction cbs as [|cb r IH]; simpl.
    - apply tags_ret.
    - apply tags_bind; [apply tags_call | intros _; exact IH].
  Qed.

  Lemma tags_eval_conds cs : tags (eval_conds (fun s : state => s) ev c cs).
  Proof.
    induction cs as [|[cb tg] r IH]; simpl.
    - apply tags_ret.
    - apply tags_bind; [apply tags_call|]. intro v. destruct (Bool.eqb v tg); [exact IH | apply tags_ret].
  Qed.

  Lemma tags_change_state t d : tags (change_state mc ev c t d).
  Proof.
    unfold change_state. destruct (get_state mc (t_src t)); [|apply tags_raise].
    apply tags_bind; [apply tags_run_cbs|]. intros _.
    destruct (get_state mc d); [|apply tags_raise].
    apply tags_bind; [apply tags_put|]. intros _.
    apply tags_bind; [apply tags_run_cbs|]. intros _.
    destruct (s_final s0); [apply tags_run_cbs | apply tags_ret].
  Qed.

  Lemma tags_execute t : tags (execute mc ev c t).
  Proof.
    unfold execute. apply tags_bind; [apply tags_run_cbs|]. intros _.
    apply tags_bind; [apply tags_eval_conds|]. intros ok. destruct ok; [|apply tags_ret].
    apply tags_bind; [apply tags_run_cbs|]. intros _.
    apply tags_bind; [apply tags_run_cbs|]. intros _.
    apply tags_bind; [destruct (t_dst t); [apply tags_change_state | apply tags_ret]|]. intros _.
    apply tags_bind; [apply tags_run_cbs|]. intros _.
    apply tags_bind; [apply tags_run_cbs|]. intros _. apply tags_ret.
  Qed.

  Lemma tags_try_transitions ts : tags (try_transitions mc ev c ts).
  Proof.
    induction ts as [|t r IH]; simpl.
    - apply tags_ret.
    - apply tags_bind; [apply tags_execute|]. intros ok. destruct ok; [apply tags_ret | exact IH].
  Qed.

  Lemma tags_trigger_event ts : tags (trigger_event mc ev c ts).
  Proof.
    unfold trigger_event. apply tags_bind; [apply tags_get|]. intro cur.
    destruct (get_state mc cur); [|apply tags_raise].
    apply tags_tef.
    - unfold checked_process. destruct (candidates ts cur) eqn:E.
      + destruct (ignores mc s); [apply tags_ret | apply tags_raise].
      + unfold process. apply tags_bind; [apply tags_run_cbs|]. intros _. apply tags_try_transitions.
    - intro e. destruct (m_on_exception mc) eqn:E; [apply tags_raise|].
      apply tags_bind; [apply tags_run_cbs|]. intros _. apply tags_ret.
    - intro o. apply tags_run_cbs.
  Qed.

  Lemma tags_trigger e : tags (trigger mc ev c e).
  Proof.
    unfold trigger. destruct (lookup (m_events mc) e); [apply tags_trigger_event|].
    apply tags_bind; [apply tags_get|]. intro cur.
    destruct (get_state mc cur); [|apply tags_raise].
    destruct (ignores mc s); [apply tags_ret | apply tags_raise].
  Qed.
End Tags.

(* ------------------------------------------------------------------ C10_frame: one trigger on one model *)
Lemma touch_ctx_fields k w m :
  w_mc (touch_ctx k w m) = w_mc w /\ w_initial (touch_ctx k w m) = w_initial w /\
  w_models (touch_ctx k w m) = w_models w /\ w_obj (touch_ctx k w m) = w_obj w /\
  w_graphs (touch_ctx k w m) = w_graphs w /\ w_queues (touch_ctx k w m) = w_queues w /\
  w_pos (touch_ctx k w m) = w_pos w /\
  (w_ctx (touch_ctx k w m) = w_ctx w \/ w_ctx (touch_ctx k w m) = add_key (w_ctx w) m).
Proof. unfold touch_ctx. destruct (k_locked k && negb (k_hsm k)); simpl; repeat split; auto. Qed.

Definition frame_rel (m : model) (w w' : mworld) (n : nat) : Prop :=
  (forall x, x <> m -> w_obj w' x = w_obj w x) /\
  o_helpers (w_obj w' m) = o_helpers (w_obj w m) /\
  w_mc w' = w_mc w /\ w_initial w' = w_initial w /\ w_models w' = w_models w /\
  w_graphs w' = w_graphs w /\ w_queues w' = w_queues w /\
  (w_ctx w' = w_ctx w \/ w_ctx w' = add_key (w_ctx w) m) /\
  w_pos w' = w_pos w + n /\
  (o_state (w_obj w m) <> None -> o_state (w_obj w' m) <> None).

Lemma frame_rel_refl m w : frame_rel m w w 0.
Proof. unfold frame_rel. repeat split; auto. Qed.

Ltac fin_frame :=
  repeat split; simpl; auto; try lia;
  try (rewrite upd_obj_eq; simpl; congruence);
  try (intros _; rewrite upd_obj_eq; simpl; discriminate);
  try (let x := fresh "x" in let Hx := fresh "Hx" in
       intros x Hx; rewrite ?upd_obj_neq by auto; try congruence; auto).

Lemma trigger_on_frame k ev w m bn e a b w' :
  trigger_on k ev w m bn e a = (b, w') ->
  b_model b = m /\ Forall (fun it => it_model it = m) (b_items b) /\ frame_rel m w w' (length (b_items b)).
Proof.
  unfold trigger_on. intro H.
  destruct (negb (has_helper (if bn then HTrig else HEv e) (o_helpers (w_obj w m)))).
  { inversion H; subst; clear H; simpl. fin_frame. }
  destruct (lookup (m_events (w_mc w)) e) as [ts|] eqn:El.
  - destruct (touch_ctx_fields k w m) as (T1 & T2 & T3 & T4 & T5 & T6 & T7 & T8).
    destruct (o_state (w_obj w m)) as [s|] eqn:Es.
    + pose proof (tags_trigger_event (w_mc w) ev (mkCtx m a (m_send_event (w_mc w))) ts (w_pos w) s) as Ht.
      destruct (trigger_event (w_mc w) ev (mkCtx m a (m_send_event (w_mc w))) ts (w_pos w) s) as [[tr s'] r] eqn:Et.
      inversion H; subst; clear H; simpl in *. fin_frame.
    + inversion H; subst; clear H. unfold frame_rel. rewrite T1, T2, T3, T4, T5, T6, T7.
      simpl. repeat split; auto; try lia.
  - destruct bn.
    + destruct (o_state (w_obj w m)) as [s|] eqn:Es.
      * pose proof (tags_trigger (w_mc w) ev (mkCtx m a (m_send_event (w_mc w))) e (w_pos w) s) as Ht.
        destruct (trigger (w_mc w) ev (mkCtx m a (m_send_event (w_mc w))) e (w_pos w) s) as [[tr s'] r] eqn:Et.
        inversion H; subst; clear H; simpl in *. fin_frame.
      * inversion H; subst; clear H; simpl. fin_frame.
    + inversion H; subst; clear H; simpl. fin_frame.
Qed.

(* ------------------------------------------------------------------ C10_dispatch *)
Definition state_of (w : mworld) (m : model) : state :=
  match o_state (w_obj w m) with Some s => s | None => 0 end.

(* the model owns the event helper and has a state attribute *)
Definition ready (w : mworld) (e : event) (m : model) : Prop :=
  has_helper (HEv e) (o_helpers (w_obj w m)) = true /\ exists s, o_state (w_obj w m) = Some s.

Lemma trigger_on_ready k ev w m e a ts s tr s' r :
  lookup (m_events (w_mc w)) e = Some ts ->
  has_helper (HEv e) (o_helpers (w_obj w m)) = true ->
  o_state (w_obj w m) = Some s ->
  trigger_event (w_mc w) ev (mkCtx m a (m_send_event (w_mc w))) ts (w_pos w) s = (tr, s', r) ->
  exists w', trigger_on k ev w m false e a = (mkBlk m tr (qmap k r), w') /\
             frame_rel m w w' (length tr) /\ o_state (w_obj w' m) = Some s'.
Proof.
  intros El Hh Es Et.
  destruct (trigger_on k ev w m false e a) as [b w'] eqn:E.
  pose proof (trigger_on_frame _ _ _ _ _ _ _ _ _ E) as (F1 & F2 & F3).
  assert (E' := E). unfold trigger_on in E'. rewrite Hh in E'. simpl in E'. rewrite El, Es, Et in E'.
  injection E' as Hb Hw. subst b. exists w'. split; [reflexivity|]. simpl in F3. split; [exact F3|].
  rewrite <- Hw. simpl. rewrite upd_obj_eq. reflexivity.
Qed.

Lemma dispatch_spec_models k ev mc ts a (f : model -> state) : forall ms p,
  map b_model (dispatch_spec k ev mc ts a (map (fun m => (m, f m)) ms) p) = ms.
Proof.
  induction ms as [|m r IH]; intro p; simpl; auto.
  destruct (trigger_event mc ev (mkCtx m a (m_send_event mc)) ts p (f m)) as [[tr s'] r0].
  simpl. rewrite IH. reflexivity.
Qed.

Lemma dispatch_spec_tagged k ev mc ts a : forall ms p,
  Forall (fun b => Forall (fun it => it_model it = b_model b) (b_items b)) (dispatch_spec k ev mc ts a ms p).
Proof.
  induction ms as [|[m s] r IH]; intro p; simpl; [constructor|].
  pose proof (tags_trigger_event mc ev (mkCtx m a (m_send_event mc)) ts p s) as Ht.
  destruct (trigger_event mc ev (mkCtx m a (m_send_event mc)) ts p s) as [[tr s'] r0].
  constructor; [exact Ht | apply IH].
Qed.

Lemma dispatch_spec_ext k ev mc ts a (f g : model -> state) : forall ms p,
  (forall m, In m ms -> f m = g m) ->
  dispatch_spec k ev mc ts a (map (fun m => (m, f m)) ms) p = dispatch_spec k ev mc ts a (map (fun m => (m, g m)) ms) p.
Proof.
  induction ms as [|m r IH]; intros p H; simpl; auto.
  rewrite (H m (or_introl eq_refl)).
  destruct (trigger_event mc ev (mkCtx m a (m_send_event mc)) ts p (g m)) as [[tr s'] r0].
  rewrite IH; auto. intros x Hx. apply H. right. exact Hx.
Qed.

Lemma dispatch_loop_spec k ev e a ts : forall ms w bs r w',
  NoDup ms ->
  lookup (m_events (w_mc w)) e = Some ts ->
  (forall m, In m ms -> ready w e m) ->
  dispatch_loop k ev ms w e a = (bs, r, w') ->
  (forall x, ~ In x (map b_model bs) -> w_obj w' x = w_obj w x) /\
  w_mc w' = w_mc w /\ w_models w' = w_models w /\
  bs = firstn (length bs) (dispatch_spec k ev (w_mc w) ts a (map (fun m => (m, state_of w m)) ms) (w_pos w)) /\
  match r with
  | inr b => length bs = length ms /\ b = forallb block_ok bs
  | inl x => exists pre lst, bs = pre ++ [lst] /\ b_res lst = inl x /\ Forall (fun b => block_raised b = false) pre
  end.
Proof.
  induction ms as [|m rest IH]; intros w bs r w' Hnd El Hr H; simpl in H.
  - inversion H; subst; clear H. simpl. repeat split; auto.
  - inversion Hnd as [|? ? Hni Hnd']; subst.
    destruct (Hr m (or_introl eq_refl)) as [Hh [s Es]].
    destruct (trigger_event (w_mc w) ev (mkCtx m a (m_send_event (w_mc w))) ts (w_pos w) s) as [[tr s'] r0] eqn:Et.
    destruct (trigger_on_ready k ev w m e a ts s tr s' r0 El Hh Es Et) as (w1 & E1 & F & Es1).
    rewrite E1 in H. simpl in H.
    destruct F as (Fo & Fh & Fmc & Fi & Fm & Fg & Fq & Fc & Fp & Fs).
    assert (Hfull : dispatch_spec k ev (w_mc w) ts a (map (fun m0 => (m0, state_of w m0)) (m :: rest)) (w_pos w)
                    = mkBlk m tr (qmap k r0)
                      :: dispatch_spec k ev (w_mc w1) ts a (map (fun m0 => (m0, state_of w1 m0)) rest) (w_pos w1)).
    { simpl. unfold state_of at 1. rewrite Es, Et. f_equal. rewrite Fmc, Fp.
      apply dispatch_spec_ext. intros x Hx. unfold state_of. rewrite Fo; auto.
      intro Heq. subst. contradiction. }
    destruct (qmap k r0) as [x|b0] eqn:Eq.
    + inversion H; subst; clear H. rewrite Hfull. simpl. repeat split; auto.
      exists [], (mkBlk m tr (inl x)). simpl. repeat split; auto.
    + destruct (dispatch_loop k ev rest w1 e a) as [[bs1 r1] w2] eqn:Ed.
      assert (El1 : lookup (m_events (w_mc w1)) e = Some ts) by (rewrite Fmc; exact El).
      assert (Hr1 : forall m0, In m0 rest -> ready w1 e m0).
      { intros m0 Hm0. unfold ready. rewrite Fo; [apply Hr; right; exact Hm0|].
        intro Heq. subst. contradiction. }
      destruct (IH w1 bs1 r1 w2 Hnd' El1 Hr1 Ed) as (Io & Imc & Im & Ifull & Ir).
      assert (Hobj : forall x, ~ In x (map b_model (mkBlk m tr (inr b0) :: bs1)) -> w_obj w2 x = w_obj w x).
      { intros x Hx. simpl in Hx. rewrite Io; [apply Fo|]; intro Hc; apply Hx; auto. }
      destruct r1 as [x|b1]; inversion H; subst; clear H; rewrite Hfull; simpl.
      * destruct Ir as (pre & lst & Hb & Hl & Hp).
        split; [exact Hobj|]. split; [congruence|]. split; [congruence|]. split; [f_equal; exact Ifull|].
        exists (mkBlk m tr (inr b0) :: pre), lst. split; [simpl; rewrite Hb; reflexivity|].
        split; [exact Hl|]. constructor; [reflexivity | exact Hp].
      * destruct Ir as [Il Ib].
        split; [exact Hobj|]. split; [congruence|]. split; [congruence|]. split; [f_equal; exact Ifull|].
        split; [congruence|]. unfold block_ok at 1. simpl. rewrite Ib. reflexivity.
Qed.

(* ------------------------------------------------------------------ what the machine declares *)
Definition declared (mc : machine) (h : helper) : Prop :=
  match h with
  | HTrig | HMayTrig => True
  | HEv e | HMay e => In e (map fst (m_events mc))
  | HIs s => In s (map fst (m_states mc))
  | HTo | HGraph => False
  end.

(* every helper a registered model of class k must own (get_graph is not among them: a graph class that refuses
   a model in the middle of a list leaves the rest of the list registered without graph) *)
Definition expected (k : mclass) (mc : machine) (h : helper) : Prop :=
  declared mc h \/ (h = HTo /\ k_hsm k = true).

Lemma mh_spec k mc h : has_helper h (machine_helpers k mc) = true <-> declared mc h.
Proof.
  rewrite has_helper_In. unfold machine_helpers. simpl. rewrite in_app_iff, in_flat_map, in_map_iff.
  split.
  - intros [H|[H|[H|H]]]; subst; simpl; auto.
    + destruct H as [e [He Hi]]. unfold ev_helpers in Hi.
      destruct (k_hsm k); simpl in Hi; destruct Hi as [Hi|[Hi|[]]]; subst; simpl; auto.
    + destruct H as [s [Hs Hi]]. subst. simpl. exact Hi.
  - destruct h; simpl; intro H; auto.
    + right; right; left. exists e. split; auto. unfold ev_helpers; destruct (k_hsm k); simpl; auto.
    + right; right; left. exists e. split; auto. unfold ev_helpers; destruct (k_hsm k); simpl; auto.
    + right; right; right. exists s; auto.
    + destruct H.
    + destruct H.
Qed.

Lemma has_ev_helpers k e h : has_helper h (ev_helpers k e) = true <-> h = HEv e \/ h = HMay e.
Proof.
  rewrite has_helper_In. unfold ev_helpers. destruct (k_hsm k); simpl; intuition (subst; auto).
Qed.

(* ------------------------------------------------------------------ the invariant of all histories *)
Record Inv (k : mclass) (w : mworld) : Prop := mkInv {
  inv_nodup : NoDup (w_models w);
  inv_complete : forall m h, In m (w_models w) -> expected k (w_mc w) h ->
                             has_helper h (o_helpers (w_obj w m)) = true;
  inv_state : forall m, In m (w_models w) -> o_state (w_obj w m) <> None;
  inv_ctx : k_locked k = true -> forall m, In m (w_models w) -> In m (w_ctx w);
  inv_queue : per_model_queue k = true -> forall m, In m (w_models w) -> In m (w_queues w)
}.

Lemma Inv_init k mc ini : Inv k (init_world mc ini).
Proof. constructor; simpl; try (intros; contradiction); try constructor. Qed.

(* --- the layers of add_model *)
Lemma lay_locked_f k w m :
  w_mc (lay_locked k w m) = w_mc w /\ w_models (lay_locked k w m) = w_models w /\
  w_obj (lay_locked k w m) = w_obj w /\ w_queues (lay_locked k w m) = w_queues w /\
  w_graphs (lay_locked k w m) = w_graphs w /\ w_pos (lay_locked k w m) = w_pos w /\
  w_initial (lay_locked k w m) = w_initial w /\
  (forall x, In x (w_ctx (lay_locked k w m)) <-> In x (w_ctx w) \/ (x = m /\ k_locked k = true)) /\
  (In m (w_ctx w) -> w_ctx (lay_locked k w m) = w_ctx w).
Proof.
  unfold lay_locked. destruct (k_locked k); simpl; repeat split; auto; try (intros; reflexivity).
  - rewrite add_key_In. intuition.
  - rewrite add_key_In. intuition.
  - apply add_key_present.
  - intuition. discriminate.
Qed.

Lemma lay_queue_f k w m :
  w_mc (lay_queue k w m) = w_mc w /\ w_models (lay_queue k w m) = w_models w /\
  w_obj (lay_queue k w m) = w_obj w /\ w_ctx (lay_queue k w m) = w_ctx w /\
  w_graphs (lay_queue k w m) = w_graphs w /\ w_pos (lay_queue k w m) = w_pos w /\
  w_initial (lay_queue k w m) = w_initial w /\
  (forall x, In x (w_queues (lay_queue k w m)) <-> In x (w_queues w) \/ (x = m /\ per_model_queue k = true)) /\
  (In m (w_queues w) -> w_queues (lay_queue k w m) = w_queues w).
Proof.
  unfold lay_queue. destruct (per_model_queue k); simpl; repeat split; auto; try (intros; reflexivity).
  - rewrite add_key_In. intuition.
  - rewrite add_key_In. intuition.
  - apply add_key_present.
  - intuition. discriminate.
Qed.

Lemma lay_graph_f k w m r w' :
  lay_graph k false w m = (r, w') ->
  w_mc w' = w_mc w /\ w_models w' = w_models w /\ w_ctx w' = w_ctx w /\ w_queues w' = w_queues w /\
  w_pos w' = w_pos w /\ w_initial w' = w_initial w /\
  (forall x, x <> m -> w_obj w' x = w_obj w x) /\
  o_state (w_obj w' m) = o_state (w_obj w m) /\
  (forall h, has_helper h (o_helpers (w_obj w m)) = true -> has_helper h (o_helpers (w_obj w' m)) = true) /\
  (k_graph k = true -> has_helper HGraph (o_helpers (w_obj w' m)) = true) /\
  (forall x, In x (w_graphs w') <-> In x (w_graphs w) \/ (x = m /\ r = inr None /\ k_graph k = true)) /\
  (has_helper HGraph (o_helpers (w_obj w m)) = true \/ k_graph k = false ->
   w_obj w' = w_obj w /\ w_graphs w' = w_graphs w /\
   r = if k_graph k then inl AttributeError else inr None).
Proof.
  unfold lay_graph. intro H. destruct (k_graph k) eqn:Eg.
  - destruct (has_helper HGraph (o_helpers (w_obj w m))) eqn:Eh; inversion H; subst; clear H; simpl.
    + repeat split; auto; try (intros [? ?]; assumption); try tauto.
      intros [Hx|[_ [Hc _]]]; [exact Hx | discriminate].
    + repeat split; auto.
      * intros x Hx. rewrite upd_obj_neq; auto.
      * rewrite upd_obj_eq. reflexivity.
      * intros h Hh. rewrite upd_obj_eq. simpl. rewrite has_helper_app, Hh. reflexivity.
      * intros _. rewrite upd_obj_eq. simpl. rewrite has_helper_app. simpl. apply orb_true_r.
      * rewrite add_key_In. intuition.
      * rewrite add_key_In. intuition.
      * destruct H; congruence.
      * destruct H; congruence.
      * destruct H; congruence.
  - inversion H; subst; clear H. repeat split; auto; try discriminate; try tauto.
    intros [Hx|[_ [_ Hc]]]; [exact Hx | discriminate].
Qed.

Lemma layers_f k was w1 m r w' :
  lay_graph k was (lay_queue k (lay_locked k w1 m) m) m = (r, w') ->
  w_mc w' = w_mc w1 /\ w_models w' = w_models w1 /\ w_pos w' = w_pos w1 /\ w_initial w' = w_initial w1 /\
  (forall x, x <> m -> w_obj w' x = w_obj w1 x) /\
  o_state (w_obj w' m) = o_state (w_obj w1 m) /\
  (forall h, has_helper h (o_helpers (w_obj w1 m)) = true -> has_helper h (o_helpers (w_obj w' m)) = true) /\
  (k_graph k = true -> was = false -> has_helper HGraph (o_helpers (w_obj w' m)) = true) /\
  (forall x, In x (w_ctx w') <-> In x (w_ctx w1) \/ (x = m /\ k_locked k = true)) /\
  (forall x, In x (w_queues w') <-> In x (w_queues w1) \/ (x = m /\ per_model_queue k = true)) /\
  (forall x, In x (w_graphs w') -> In x (w_graphs w1) \/ x = m).
Proof.
  intro H.
  destruct (lay_locked_f k w1 m) as (L1&L2&L3&L4&L5&L6&L7&L8&L9).
  destruct (lay_queue_f k (lay_locked k w1 m) m) as (Q1&Q2&Q3&Q4&Q5&Q6&Q7&Q8&Q9).
  destruct was.
  - (* registered before the call: the graph layer does nothing *)
    unfold lay_graph in H. injection H as <- <-. splits; try congruence.
    + intro x. rewrite Q4. apply L8.
    + intro x. rewrite <- L4. apply Q8.
    + intros x Hx. rewrite Q5, L5 in Hx. left. exact Hx.
  - destruct (lay_graph_f _ _ _ _ _ H) as (G1&G2&G3&G4&G5&G6&G7&G8&G9&G10&G11&G12).
    splits.
    + congruence.
    + congruence.
    + congruence.
    + congruence.
    + intros x Hx. rewrite G7 by auto. rewrite Q3, L3. reflexivity.
    + rewrite G8, Q3, L3. reflexivity.
    + intros h Hh. apply G9. rewrite Q3, L3. exact Hh.
    + intros Hg _. exact (G10 Hg).
    + intro x. rewrite G3, Q4. apply L8.
    + intro x. rewrite G4, <- L4. apply Q8.
    + intros x Hx. apply G11 in Hx. rewrite Q5, L5 in Hx. tauto.
Qed.

Lemma NoDup_snoc (l : list nat) x : NoDup l -> ~ In x l -> NoDup (l ++ [x]).
Proof.
  induction l as [|y r IH]; simpl; intros Hn Hx.
  - constructor; auto.
  - inversion Hn; subst. constructor.
    + rewrite in_app_iff. simpl. intuition.
    + apply IH; auto.
Qed.

Opaque machine_helpers add_helpers add_helper.
Lemma Inv_add_model k w m init r w' : Inv k w -> add_model k w m init = (r, w') -> Inv k w'.
Proof.
  intros I H. unfold add_model in H.
  destruct (add_core k w m init) as [oe w1] eqn:Ec. unfold add_core in Ec.
  destruct (mem_nat m (w_models w)) eqn:Em.
  - (* already registered *)
    inversion Ec; subst; clear Ec. apply mem_nat_In in Em.
    destruct (layers_f _ _ _ _ _ _ H) as (F1&F2&F3&F4&F5&F6&F7&F8&F9&F10&F11).
    constructor.
    + rewrite F2. apply I.
    + intros x h Hx He. rewrite F2 in Hx. rewrite F1 in He.
      destruct (Nat.eq_dec x m) as [->|Hne]; [apply F7 | rewrite F5 by auto]; apply I; auto.
    + intros x Hx. rewrite F2 in Hx.
      destruct (Nat.eq_dec x m) as [->|Hne]; [rewrite F6 | rewrite F5 by auto]; apply I; auto.
    + intros Hk x Hx. rewrite F2 in Hx. apply F9. left. apply I; auto.
    + intros Hk x Hx. rewrite F2 in Hx. apply F10. left. apply I; auto.
  - apply mem_nat_false in Em.
    destruct (get_state (w_mc w) match init with Some s => s | None => w_initial w end) as [sd|] eqn:Eg.
    + (* registered now *)
      inversion Ec; subst; clear Ec.
      destruct (layers_f _ _ _ _ _ _ H) as (F1&F2&F3&F4&F5&F6&F7&F8&F9&F10&F11).
      cbn [w_mc w_models w_obj w_ctx w_queues w_graphs w_pos w_initial set_models set_objs] in *. constructor.
      * rewrite F2. apply NoDup_snoc; [apply I | exact Em].
      * intros x h Hx He. rewrite F2 in Hx. rewrite F1 in He. apply in_app_iff in Hx.
        destruct (Nat.eq_dec x m) as [->|Hne].
        -- destruct He as [Hd|[-> Hh]].
           ++ apply F7. rewrite upd_obj_eq. cbn [o_helpers o_state].
              assert (Hb : has_helper h (add_helpers (machine_helpers k (w_mc w)) (o_helpers (w_obj w m))) = true).
              { rewrite has_add_helpers. apply orb_true_iff. right. apply mh_spec. exact Hd. }
              destruct (k_hsm k); [rewrite has_add_helper, Hb; reflexivity | exact Hb].
           ++ apply F7. rewrite upd_obj_eq. cbn [o_helpers o_state]. rewrite Hh. rewrite has_add_helper. cbn [helper_eqb]. apply orb_true_r.
        -- destruct Hx as [Hx|[Hx|[]]]; [|congruence].
           rewrite F5 by auto. rewrite upd_obj_neq by auto. apply I; auto.
      * intros x Hx. rewrite F2 in Hx. apply in_app_iff in Hx.
        destruct (Nat.eq_dec x m) as [->|Hne].
        -- rewrite F6. rewrite upd_obj_eq. cbn [o_helpers o_state]. discriminate.
        -- destruct Hx as [Hx|[Hx|[]]]; [|congruence].
           rewrite F5 by auto. rewrite upd_obj_neq by auto. apply I; auto.
      * intros Hk x Hx. rewrite F2 in Hx. apply in_app_iff in Hx. apply F9.
        destruct Hx as [Hx|[Hx|[]]]; [left; apply I; auto | right; split; auto].
      * intros Hk x Hx. rewrite F2 in Hx. apply in_app_iff in Hx. apply F10.
        destruct Hx as [Hx|[Hx|[]]]; [left; apply I; auto | right; split; auto].
    + (* unregistered initial state: ValueError after the helpers were bound *)
      inversion Ec; subst; clear Ec. inversion H; subst; clear H. simpl.
      assert (Hne : forall x, In x (w_models w) -> x <> m) by (intros x Hx Heq; subst; contradiction).
      constructor; simpl.
      * apply I.
      * intros x h Hx He. rewrite upd_obj_neq by auto. apply I; auto.
      * intros x Hx. rewrite upd_obj_neq by auto. apply I; auto.
      * apply I.
      * apply I.
Qed.
Transparent machine_helpers add_helpers add_helper.

Lemma Inv_remove_model k w m r w' : Inv k w -> remove_model k w m = (r, w') -> Inv k w'.
Proof.
  intros I H. unfold remove_model in H.
  destruct (negb (mem_nat m (w_models w))) eqn:Em.
  - inversion H; subst. exact I.
  - inversion H; subst; clear H.
    assert (Hm : w_models (if per_model_queue k
                           then set_queues (if k_locked k then set_ctx w (del_key m (w_ctx w)) else w)
                                           (del_key m (w_queues (if k_locked k then set_ctx w (del_key m (w_ctx w)) else w)))
                           else if k_locked k then set_ctx w (del_key m (w_ctx w)) else w) = w_models w)
      by (destruct (per_model_queue k), (k_locked k); reflexivity).
    assert (Hn : forall x, In x (remove_first m (w_models w)) -> In x (w_models w) /\ x <> m).
    { intros x Hx. split; [eapply remove_first_In; exact Hx|]. intro Heq. subst.
      exact (remove_first_notin m (w_models w) (inv_nodup _ _ I) Hx). }
    constructor.
    + cbn [w_models set_models]. rewrite Hm. apply remove_first_NoDup. apply I.
    + cbn [w_models set_models w_mc w_obj]. rewrite Hm. intros x h Hx He. apply Hn in Hx.
      destruct (per_model_queue k), (k_locked k); cbn in *; apply I; tauto.
    + cbn [w_models set_models w_obj]. rewrite Hm. intros x Hx. apply Hn in Hx.
      destruct (per_model_queue k), (k_locked k); cbn in *; apply I; tauto.
    + cbn [w_models set_models w_ctx]. rewrite Hm. intros Hk x Hx. apply Hn in Hx. rewrite Hk.
      destruct (per_model_queue k); cbn; apply del_key_In; split; try tauto; apply I; tauto.
    + cbn [w_models set_models w_queues]. rewrite Hm. intros Hk x Hx. apply Hn in Hx. rewrite Hk.
      cbn. apply del_key_In. split; [|tauto].
      destruct (k_locked k); cbn; apply I; tauto.
Qed.

Lemma regen_graphs_f k w :
  w_mc (regen_graphs k w) = w_mc w /\ w_models (regen_graphs k w) = w_models w /\
  w_obj (regen_graphs k w) = w_obj w /\ w_ctx (regen_graphs k w) = w_ctx w /\
  w_queues (regen_graphs k w) = w_queues w /\ w_pos (regen_graphs k w) = w_pos w /\
  w_initial (regen_graphs k w) = w_initial w /\
  (forall x, In x (w_graphs (regen_graphs k w)) -> In x (w_graphs w) \/ In x (w_models w)).
Proof.
  unfold regen_graphs. destruct (k_graph k); cbn; repeat split; auto.
  intros x Hx. apply fold_add_key_In in Hx. exact Hx.
Qed.

Lemma bind_all_f ms hs f x :
  o_state (bind_all ms hs f x) = o_state (f x) /\
  (forall h, has_helper h (o_helpers (f x)) = true -> has_helper h (o_helpers (bind_all ms hs f x)) = true) /\
  (In x ms -> forall h, has_helper h hs = true -> has_helper h (o_helpers (bind_all ms hs f x)) = true) /\
  (~ In x ms -> bind_all ms hs f x = f x).
Proof.
  unfold bind_all. destruct (mem_nat x ms) eqn:E.
  - cbn [o_state o_helpers]. repeat split; auto.
    + intros h Hh. rewrite has_add_helpers, Hh. reflexivity.
    + intros _ h Hh. rewrite has_add_helpers, Hh. apply orb_true_r.
    + intro Hn. apply mem_nat_In in E. contradiction.
  - repeat split; auto. intro Hi. apply mem_nat_In in Hi. congruence.
Qed.

Lemma Inv_add_state k w s sd r w' : Inv k w -> add_state k w s sd = (r, w') -> Inv k w'.
Proof.
  intros I H. unfold add_state in H.
  destruct (k_hsm k && match get_state (w_mc w) s with Some _ => true | None => false end).
  - inversion H; subst. exact I.
  - inversion H; subst; clear H.
    destruct (regen_graphs_f k (set_objs (set_mc w (mc_set_states (w_mc w) (set_assoc (m_states (w_mc w)) s sd)))
                                         (bind_all (w_models w) [HIs s] (w_obj w)))) as (R1&R2&R3&R4&R5&R6&R7&R8).
    constructor.
    + rewrite R2. apply I.
    + rewrite R1, R2, R3. cbn. intros x h Hx He.
      destruct (bind_all_f (w_models w) [HIs s] (w_obj w) x) as (B1&B2&B3&B4).
      destruct He as [Hd|Hr].
      * assert (Hd' : declared (w_mc w) h \/ h = HIs s).
        { destruct h; cbn in *; auto. apply set_assoc_keys in Hd. destruct Hd; [left; assumption | right; congruence]. }
        destruct Hd' as [Hd'| ->].
        -- apply B2. apply I; auto. left. exact Hd'.
        -- apply B3; auto. cbn. rewrite Nat.eqb_refl. reflexivity.
      * apply B2. apply I; auto. right. exact Hr.
    + rewrite R2, R3. cbn. intros x Hx.
      destruct (bind_all_f (w_models w) [HIs s] (w_obj w) x) as (B1&B2&B3&B4). rewrite B1. apply I; auto.
    + rewrite R2, R4. apply I.
    + rewrite R2, R5. apply I.
Qed.

Lemma Inv_add_transition k w e t r w' : Inv k w -> add_transition k w e t = (r, w') -> Inv k w'.
Proof.
  intros I H. unfold add_transition in H. inversion H; subst; clear H.
  set (w1 := match lookup (m_events (w_mc w)) e with
             | Some _ => w
             | None => set_objs w (bind_all (w_models w) (ev_helpers k e) (w_obj w))
             end).
  assert (W : w_mc w1 = w_mc w /\ w_models w1 = w_models w /\ w_ctx w1 = w_ctx w /\ w_queues w1 = w_queues w /\
              (forall x, o_state (w_obj w1 x) = o_state (w_obj w x)) /\
              (forall x h, has_helper h (o_helpers (w_obj w x)) = true -> has_helper h (o_helpers (w_obj w1 x)) = true) /\
              (forall x h, In x (w_models w) -> h = HEv e \/ h = HMay e -> has_helper h (o_helpers (w_obj w1 x)) = true)).
  { unfold w1. destruct (lookup (m_events (w_mc w)) e) as [ts|] eqn:El; cbn; repeat split; auto.
    - intros x h Hx Hh. apply I; auto. left. apply lookup_Some_in in El. destruct Hh; subst; exact El.
    - intro x. apply (bind_all_f (w_models w) (ev_helpers k e) (w_obj w) x).
    - intros x h. apply (bind_all_f (w_models w) (ev_helpers k e) (w_obj w) x).
    - intros x h Hx Hh. apply (bind_all_f (w_models w) (ev_helpers k e) (w_obj w) x); auto.
      apply has_ev_helpers. exact Hh. }
  destruct W as (W1&W2&W3&W4&W5&W6&W7).
  destruct (regen_graphs_f k (set_mc w1 (mc_set_events (w_mc w) (add_trans_to (m_events (w_mc w)) e t))))
    as (R1&R2&R3&R4&R5&R6&R7&R8).
  constructor.
  - rewrite R2. cbn. rewrite W2. apply I.
  - rewrite R1, R2, R3. cbn. rewrite W2. intros x h Hx He.
    destruct He as [Hd|Hr].
    + assert (Hd' : declared (w_mc w) h \/ h = HEv e \/ h = HMay e).
      { destruct h; cbn in *; auto; apply add_trans_keys in Hd; destruct Hd; auto; subst; auto. }
      destruct Hd' as [Hd'|Hd'].
      * apply W6. apply I; auto. left. exact Hd'.
      * apply W7; auto.
    + apply W6. apply I; auto. right. exact Hr.
  - rewrite R2, R3. cbn. rewrite W2. intros x Hx. rewrite W5. apply I; auto.
  - rewrite R2, R4. cbn. rewrite W2, W3. apply I.
  - rewrite R2, R5. cbn. rewrite W2, W4. apply I.
Qed.

(* ------------------------------------------------------------------ events touch only the models they run on *)
Definition multi_rel (ms : list model) (w w' : mworld) : Prop :=
  (forall x, ~ In x ms -> w_obj w' x = w_obj w x) /\
  (forall x, o_helpers (w_obj w' x) = o_helpers (w_obj w x)) /\
  (forall x, o_state (w_obj w x) <> None -> o_state (w_obj w' x) <> None) /\
  w_mc w' = w_mc w /\ w_initial w' = w_initial w /\ w_models w' = w_models w /\
  w_graphs w' = w_graphs w /\ w_queues w' = w_queues w /\
  (forall x, In x (w_ctx w) -> In x (w_ctx w')) /\
  (forall x, In x (w_ctx w') -> In x (w_ctx w) \/ In x ms).

Lemma frame_multi m w w' n : frame_rel m w w' n -> multi_rel [m] w w'.
Proof.
  intros (Fo & Fh & Fmc & Fi & Fm & Fg & Fq & Fc & Fp & Fs). unfold multi_rel. splits; auto.
  - intros x Hx. apply Fo. intro Heq. apply Hx. left. symmetry. exact Heq.
  - intro x. destruct (Nat.eq_dec x m) as [->|Hne]; [exact Fh | rewrite Fo; auto].
  - intros x Hx. destruct (Nat.eq_dec x m) as [->|Hne]; [apply Fs; exact Hx | rewrite Fo; auto].
  - intros x Hx. destruct Fc as [->| ->]; [exact Hx | apply add_key_In; left; exact Hx].
  - intros x Hx. destruct Fc as [Fc|Fc]; rewrite Fc in Hx; [left; exact Hx|].
    apply add_key_In in Hx. destruct Hx; [left; assumption | right; left; congruence].
Qed.

Lemma multi_refl ms w : multi_rel ms w w.
Proof. unfold multi_rel. splits; auto. Qed.

Lemma multi_trans ms1 ms2 w w1 w2 : multi_rel ms1 w w1 -> multi_rel ms2 w1 w2 -> multi_rel (ms1 ++ ms2) w w2.
Proof.
  intros (A1&A2&A3&A4&A5&A6&A7&A8&A9&A10) (B1&B2&B3&B4&B5&B6&B7&B8&B9&B10). unfold multi_rel.
  splits; try congruence.
  - intros x Hx. rewrite in_app_iff in Hx. rewrite B1, A1; tauto.
  - intros x Hx. apply B3, A3, Hx.
  - intros x Hx. apply B9, A9, Hx.
  - intros x Hx. rewrite in_app_iff. apply B10 in Hx. destruct Hx as [Hx|Hx]; [|tauto].
    apply A10 in Hx. tauto.
Qed.

Lemma Inv_multi k ms w w' : Inv k w -> multi_rel ms w w' -> Inv k w'.
Proof.
  intros I (A1&A2&A3&A4&A5&A6&A7&A8&A9&A10). constructor.
  - rewrite A6. apply I.
  - rewrite A6, A4. intros x h Hx He. rewrite A2. apply I; auto.
  - rewrite A6. intros x Hx. apply A3. apply I; auto.
  - rewrite A6. intros Hk x Hx. apply A9. apply I; auto.
  - rewrite A6, A8. apply I.
Qed.

Definition blocks_tagged (bs : list block) : Prop :=
  Forall (fun b => Forall (fun it => it_model it = b_model b) (b_items b)) bs.

Lemma dispatch_loop_multi k ev e a : forall ms w bs r w',
  dispatch_loop k ev ms w e a = (bs, r, w') -> multi_rel ms w w' /\ blocks_tagged bs.
Proof.
  induction ms as [|m rest IH]; intros w bs r w' H; simpl in H.
  - inversion H; subst. split; [apply multi_refl | constructor].
  - destruct (trigger_on k ev w m false e a) as [b w1] eqn:E.
    destruct (trigger_on_frame _ _ _ _ _ _ _ _ _ E) as (F1 & F2 & F3).
    apply frame_multi in F3.
    assert (Hb : Forall (fun it => it_model it = b_model b) (b_items b)) by (rewrite F1; exact F2).
    clear F1 F2.
    destruct (b_res b) as [x|r0].
    + inversion H; subst; clear H. split.
      * apply (multi_trans [m] rest w w' w'); [exact F3 | apply multi_refl].
      * constructor; [exact Hb | constructor].
    + destruct (dispatch_loop k ev rest w1 e a) as [[bs1 r1] w2] eqn:Ed.
      destruct (IH _ _ _ _ Ed) as [M T].
      assert (M' : multi_rel ([m] ++ rest) w w2) by (eapply multi_trans; eassumption).
      destruct r1; inversion H; subst; clear H; (split; [exact M' | constructor; assumption]).
Qed.

(* ------------------------------------------------------------------ add_model with a list of models *)
(* what every layer above the core loop may do to the world, for the models of the list [ms] *)
Definition grow (ms : list model) (w w' : mworld) : Prop :=
  w_mc w' = w_mc w /\ w_initial w' = w_initial w /\ w_pos w' = w_pos w /\ w_models w' = w_models w /\
  (forall x, ~ In x ms -> w_obj w' x = w_obj w x) /\
  (forall x, o_state (w_obj w' x) = o_state (w_obj w x)) /\
  (forall x h, has_helper h (o_helpers (w_obj w x)) = true -> has_helper h (o_helpers (w_obj w' x)) = true) /\
  (forall x, In x (w_ctx w) -> In x (w_ctx w')) /\ (forall x, In x (w_ctx w') -> In x (w_ctx w) \/ In x ms) /\
  (forall x, In x (w_queues w) -> In x (w_queues w')) /\ (forall x, In x (w_queues w') -> In x (w_queues w) \/ In x ms) /\
  (forall x, In x (w_graphs w) -> In x (w_graphs w')) /\ (forall x, In x (w_graphs w') -> In x (w_graphs w) \/ In x ms).

Lemma grow_refl ms w : grow ms w w.
Proof. unfold grow. splits; auto. Qed.

Lemma grow_trans ms w w1 w2 : grow ms w w1 -> grow ms w1 w2 -> grow ms w w2.
Proof.
  intros (A1&A2&A3&A4&A5&A6&A7&A8&A9&A10&A11&A12&A13) (B1&B2&B3&B4&B5&B6&B7&B8&B9&B10&B11&B12&B13).
  unfold grow. splits; try congruence.
  - intros x Hx. rewrite B5, A5; auto.
  - intros x h Hh. apply B7, A7, Hh.
  - intros x Hx. apply B8, A8, Hx.
  - intros x Hx. apply B9 in Hx. destruct Hx as [Hx|Hx]; [apply A9 in Hx; tauto | tauto].
  - intros x Hx. apply B10, A10, Hx.
  - intros x Hx. apply B11 in Hx. destruct Hx as [Hx|Hx]; [apply A11 in Hx; tauto | tauto].
  - intros x Hx. apply B12, A12, Hx.
  - intros x Hx. apply B13 in Hx. destruct Hx as [Hx|Hx]; [apply A13 in Hx; tauto | tauto].
Qed.

Lemma grow_mono ms ms' w w' : (forall x, In x ms -> In x ms') -> grow ms w w' -> grow ms' w w'.
Proof.
  intros Hs (A1&A2&A3&A4&A5&A6&A7&A8&A9&A10&A11&A12&A13). unfold grow. splits; auto.
  - intros x Hx. apply A9 in Hx. destruct Hx; auto.
  - intros x Hx. apply A11 in Hx. destruct Hx; auto.
  - intros x Hx. apply A13 in Hx. destruct Hx; auto.
Qed.

Lemma grow_fold (f : mworld -> model -> mworld) :
  (forall w x, grow [x] w (f w x)) -> forall ms w, grow ms w (fold_left f ms w).
Proof.
  intros Hf ms. induction ms as [|m r IH]; intro w; simpl.
  - apply grow_refl.
  - eapply grow_trans.
    + eapply grow_mono; [|apply (Hf w m)]. simpl. intros x [->|[]]. left. reflexivity.
    + eapply grow_mono; [|apply IH]. simpl. auto.
Qed.

Lemma hsm1_grow known w x : grow [x] w (hsm1 known w x).
Proof.
  unfold hsm1. destruct (mem_nat x known); [apply grow_refl|].
  unfold grow. cbn [w_mc w_initial w_pos w_models w_obj w_ctx w_queues w_graphs set_objs]. splits; auto.
  - intros y Hy. rewrite upd_obj_neq; auto. simpl in Hy. intuition.
  - intro y. destruct (Nat.eq_dec y x) as [->|Hne]; [rewrite upd_obj_eq; reflexivity | rewrite upd_obj_neq; auto].
  - intros y h Hh. destruct (Nat.eq_dec y x) as [->|Hne]; [|rewrite upd_obj_neq; auto].
    rewrite upd_obj_eq. cbn [o_helpers]. rewrite has_add_helper, Hh. reflexivity.
Qed.

Lemma lay_locked_grow k w x : grow [x] w (lay_locked k w x).
Proof.
  destruct (lay_locked_f k w x) as (L1&L2&L3&L4&L5&L6&L7&L8&L9).
  unfold grow. splits; try congruence; auto.
  - intros y Hy. apply L8. left. exact Hy.
  - intros y Hy. apply L8 in Hy. simpl. intuition.
  - intros y Hy. rewrite L4 in Hy. left. exact Hy.
  - intros y Hy. rewrite L5 in Hy. left. exact Hy.
Qed.

Lemma lay_queue_grow k w x : grow [x] w (lay_queue k w x).
Proof.
  destruct (lay_queue_f k w x) as (L1&L2&L3&L4&L5&L6&L7&L8&L9).
  unfold grow. splits; try congruence; auto.
  - intros y Hy. rewrite L4 in Hy. left. exact Hy.
  - intros y Hy. apply L8. left. exact Hy.
  - intros y Hy. apply L8 in Hy. simpl. intuition.
  - intros y Hy. rewrite L5 in Hy. left. exact Hy.
Qed.

Lemma lay_graph_grow k was w x r w' : lay_graph k was w x = (r, w') -> grow [x] w w'.
Proof.
  intro H. destruct was.
  - unfold lay_graph in H. injection H as _ <-. apply grow_refl.
  - destruct (lay_graph_f _ _ _ _ _ H) as (G1&G2&G3&G4&G5&G6&G7&G8&G9&G10&G11&G12).
    unfold grow. splits; try congruence; auto.
    + intros y Hy. apply G7. simpl in Hy. intuition.
    + intro y. destruct (Nat.eq_dec y x) as [->|Hne]; [exact G8 | rewrite G7; auto].
    + intros y h Hh. destruct (Nat.eq_dec y x) as [->|Hne]; [apply G9; exact Hh | rewrite G7; auto].
    + intros y Hy. rewrite G3 in Hy. left. exact Hy.
    + intros y Hy. rewrite G4 in Hy. left. exact Hy.
    + intros y Hy. apply G11. left. exact Hy.
    + intros y Hy. apply G11 in Hy. simpl. intuition.
Qed.

Lemma graph_list_grow k : forall ms known w r w', graph_list k known w ms = (r, w') -> grow ms w w'.
Proof.
  induction ms as [|m rest IH]; intros known w r w' H; simpl in H.
  - injection H as _ <-. apply grow_refl.
  - destruct (lay_graph k (mem_nat m known) w m) as [r1 w1] eqn:E.
    pose proof (lay_graph_grow _ _ _ _ _ _ E) as G1.
    assert (G1' : grow (m :: rest) w w1) by (eapply grow_mono; [|exact G1]; simpl; intros x [->|[]]; auto).
    destruct r1 as [e|o].
    + injection H as _ <-. exact G1'.
    + eapply grow_trans; [exact G1'|]. eapply grow_mono; [|eapply IH; exact H]. simpl. auto.
Qed.

(* all models of the list known: the graph layer does nothing at all *)
Lemma graph_list_known k : forall ms known w, (forall x, In x ms -> In x known) ->
  graph_list k known w ms = (inr None, w).
Proof.
  induction ms as [|m rest IH]; intros known w Hk; simpl; auto.
  assert (Hm : mem_nat m known = true) by (apply mem_nat_In; apply Hk; left; reflexivity).
  rewrite Hm. unfold lay_graph. rewrite add_key_present by (apply mem_nat_In; exact Hm).
  apply IH. intros x Hx. apply Hk. right. exact Hx.
Qed.

Lemma fold_locked_in k : forall ms w x, k_locked k = true -> In x ms -> In x (w_ctx (fold_left (lay_locked k) ms w)).
Proof.
  induction ms as [|m r IH]; intros w x Hk Hx; simpl in *; [contradiction|].
  destruct Hx as [->|Hx]; [|apply IH; auto].
  destruct (grow_fold _ (lay_locked_grow k) r (lay_locked k w x)) as (_&_&_&_&_&_&_&A8&_).
  apply A8. apply (lay_locked_f k w x). right. auto.
Qed.

Lemma fold_queue_in k : forall ms w x, per_model_queue k = true -> In x ms ->
  In x (w_queues (fold_left (lay_queue k) ms w)).
Proof.
  induction ms as [|m r IH]; intros w x Hk Hx; simpl in *; [contradiction|].
  destruct Hx as [->|Hx]; [|apply IH; auto].
  destruct (grow_fold _ (lay_queue_grow k) r (lay_queue k w x)) as (_&_&_&_&_&_&_&_&_&A10&_).
  apply A10. apply (lay_queue_f k w x). right. auto.
Qed.

Lemma fold_hsm_to known : forall ms w x, In x ms -> ~ In x known ->
  has_helper HTo (o_helpers (w_obj (fold_left (hsm1 known) ms w) x)) = true.
Proof.
  induction ms as [|m r IH]; intros w x Hx Hn; simpl in *; [contradiction|].
  destruct Hx as [->|Hx]; [|apply IH; auto].
  destruct (grow_fold _ (hsm1_grow known) r (hsm1 known w x)) as (_&_&_&_&_&_&A7&_).
  apply A7. unfold hsm1. apply mem_nat_false in Hn. rewrite Hn. cbn [w_obj set_objs]. rewrite upd_obj_eq.
  cbn [o_helpers]. rewrite has_add_helper. cbn [helper_eqb]. apply orb_true_r.
Qed.

(* the core loop *)
Opaque machine_helpers add_helpers add_helper.
Lemma add_core1_f k w m init oe w1 :
  add_core1 k w m init = (oe, w1) ->
  w_mc w1 = w_mc w /\ w_initial w1 = w_initial w /\ w_pos w1 = w_pos w /\ w_ctx w1 = w_ctx w /\
  w_queues w1 = w_queues w /\ w_graphs w1 = w_graphs w /\
  (forall x, x <> m -> w_obj w1 x = w_obj w x) /\
  (In m (w_models w) -> w1 = w /\ oe = None) /\
  (forall h, has_helper h (o_helpers (w_obj w m)) = true -> has_helper h (o_helpers (w_obj w1 m)) = true) /\
  (o_state (w_obj w m) <> None -> o_state (w_obj w1 m) <> None) /\
  (oe = None -> w_models w1 = (if mem_nat m (w_models w) then w_models w else w_models w ++ [m]) /\
               (~ In m (w_models w) ->
                (forall h, declared (w_mc w) h -> has_helper h (o_helpers (w_obj w1 m)) = true) /\
                o_state (w_obj w1 m) <> None)) /\
  (oe <> None -> w_models w1 = w_models w /\ ~ In m (w_models w)).
Proof.
  unfold add_core1. intro H. destruct (mem_nat m (w_models w)) eqn:Em.
  - injection H as <- <-. apply mem_nat_In in Em. splits; auto; try tauto; try congruence.
  - apply mem_nat_false in Em.
    destruct (get_state (w_mc w) match init with Some s => s | None => w_initial w end);
      injection H as <- <-; cbn [w_mc w_initial w_pos w_models w_obj w_ctx w_queues w_graphs set_objs set_models];
      (split; [reflexivity|]); (split; [reflexivity|]); (split; [reflexivity|]); (split; [reflexivity|]);
      (split; [reflexivity|]); (split; [reflexivity|]);
      (split; [intros x Hx; rewrite upd_obj_neq; auto|]);
      (split; [intro Hc; contradiction|]);
      (split; [intros h Hh; rewrite upd_obj_eq; cbn [o_helpers]; rewrite has_add_helpers, Hh; reflexivity|]).
    + split; [intros _; rewrite upd_obj_eq; cbn [o_state]; discriminate|].
      split; [|intro Hc; congruence].
      intros _. split; [reflexivity|]. intros _. split.
      * intros h Hd. rewrite upd_obj_eq. cbn [o_helpers]. rewrite has_add_helpers.
        apply orb_true_iff. right. apply mh_spec. exact Hd.
      * rewrite upd_obj_eq. cbn [o_state]. discriminate.
    + split; [intros Hs; rewrite upd_obj_eq; cbn [o_state]; exact Hs|].
      split; [intro Hc; discriminate|].
      intros _. split; [reflexivity | exact Em].
Qed.
Transparent machine_helpers add_helpers add_helper.

Definition core_rel (k : mclass) (ms : list model) (w w1 : mworld) : Prop :=
  w_mc w1 = w_mc w /\ w_initial w1 = w_initial w /\ w_pos w1 = w_pos w /\ w_ctx w1 = w_ctx w /\
  w_queues w1 = w_queues w /\ w_graphs w1 = w_graphs w /\
  (forall x, ~ In x ms -> w_obj w1 x = w_obj w x) /\
  (forall x, In x (w_models w) -> w_obj w1 x = w_obj w x) /\
  (forall x h, has_helper h (o_helpers (w_obj w x)) = true -> has_helper h (o_helpers (w_obj w1 x)) = true) /\
  (forall x, o_state (w_obj w x) <> None -> o_state (w_obj w1 x) <> None) /\
  (forall x, In x (w_models w) -> In x (w_models w1)) /\
  (forall x, In x (w_models w1) -> ~ In x (w_models w) ->
     In x ms /\ (forall h, declared (w_mc w) h -> has_helper h (o_helpers (w_obj w1 x)) = true) /\
     o_state (w_obj w1 x) <> None) /\
  (NoDup (w_models w) -> NoDup (w_models w1)).

Lemma core_list_f k init : forall ms w oe w1,
  core_list k w ms init = (oe, w1) ->
  core_rel k ms w w1 /\ (oe = None -> forall x, In x ms -> In x (w_models w1)).
Proof.
  induction ms as [|m rest IH]; intros w oe w1 H; simpl in H.
  - injection H as <- <-. unfold core_rel. splits; auto; try tauto; try congruence. intros _ x [].
  - destruct (add_core1 k w m init) as [oe1 w2] eqn:E1.
    destruct (add_core1_f _ _ _ _ _ _ E1) as (A1&A2&A3&A4&A5&A6&A7&A8&A9&A10&A11&A12).
    assert (Hobj : forall x, In x (w_models w) -> w_obj w2 x = w_obj w x).
    { intros x Hx. destruct (Nat.eq_dec x m) as [->|Hne]; [|apply A7; exact Hne].
      destruct (A8 Hx) as [-> _]. reflexivity. }
    assert (Hgrow : forall x h, has_helper h (o_helpers (w_obj w x)) = true -> has_helper h (o_helpers (w_obj w2 x)) = true).
    { intros x h Hh. destruct (Nat.eq_dec x m) as [->|Hne]; [apply A9; exact Hh | rewrite A7; auto]. }
    assert (Hst : forall x, o_state (w_obj w x) <> None -> o_state (w_obj w2 x) <> None).
    { intros x Hx. destruct (Nat.eq_dec x m) as [->|Hne]; [apply A10; exact Hx | rewrite A7; auto]. }
    destruct oe1 as [e|].
    + (* the loop stops here: m is not registered and the initial state is unknown *)
      injection H as <- <-. destruct (A12 ltac:(discriminate)) as [Hm Hn].
      split; [|discriminate].
      unfold core_rel. splits; auto.
      * intros x Hx. apply A7. intro Heq. apply Hx. left. symmetry. exact Heq.
      * rewrite Hm. auto.
      * rewrite Hm. intros x Hx Hc. contradiction.
      * rewrite Hm. auto.
    + destruct (A11 eq_refl) as [Hm Hnew].
      destruct (IH _ _ _ H) as [(B1&B2&B3&B4&B5&B6&B7&B8&B9&B10&B11&B12&B13) Hall].
      assert (Hm2 : forall x, In x (w_models w2) <-> In x (w_models w) \/ (x = m /\ ~ In m (w_models w))).
      { intro x. rewrite Hm. destruct (mem_nat m (w_models w)) eqn:Em.
        - apply mem_nat_In in Em. intuition.
        - apply mem_nat_false in Em. rewrite in_app_iff. simpl. intuition. }
      split.
      * unfold core_rel. splits; try congruence.
        -- intros x Hx. rewrite B7, A7; auto; intro Hc; apply Hx; [left; symmetry; exact Hc | right; exact Hc].
        -- intros x Hx. rewrite B8; [apply Hobj; exact Hx | apply Hm2; left; exact Hx].
        -- intros x h Hh. apply B9, Hgrow, Hh.
        -- intros x Hx. apply B10, Hst, Hx.
        -- intros x Hx. apply B11. apply Hm2. left. exact Hx.
        -- intros x Hx Hn. destruct (in_dec Nat.eq_dec x (w_models w2)) as [Hi|Hni].
           ++ apply Hm2 in Hi. destruct Hi as [Hi|[-> Hnm]]; [contradiction|].
              destruct (Hnew Hnm) as [Hd Hs]. splits.
              ** left. reflexivity.
              ** intros h Hh. apply B9. apply Hd. exact Hh.
              ** apply B10. exact Hs.
           ++ destruct (B12 x Hx Hni) as (C1&C2&C3). splits; [right; exact C1 | | exact C3].
              intros h Hh. apply C2. rewrite A1. exact Hh.
        -- intro Hnd. apply B13. rewrite Hm. destruct (mem_nat m (w_models w)) eqn:Em; [exact Hnd|].
           apply NoDup_snoc; [exact Hnd | apply mem_nat_false; exact Em].
      * intros He x [<-|Hx]; [|apply Hall; auto].
        apply B11. apply Hm2. destruct (in_dec Nat.eq_dec m (w_models w)); [left; assumption | right; split; auto].
Qed.

Lemma core_list_ok k init : forall ms w oe w1,
  get_state (w_mc w) match init with Some s => s | None => w_initial w end <> None ->
  core_list k w ms init = (oe, w1) -> oe = None.
Proof.
  induction ms as [|m rest IH]; intros w oe w1 Hg H; simpl in H.
  - injection H as <- _. reflexivity.
  - unfold add_core1 in H. destruct (mem_nat m (w_models w)).
    + eapply IH; eauto.
    + destruct (get_state (w_mc w) match init with Some s => s | None => w_initial w end) eqn:Eg; [|congruence].
      eapply IH; [|exact H]. cbn [w_mc w_initial set_models set_objs]. rewrite Eg. discriminate.
Qed.

(* a failing list add registers nobody: it fails at the first new model *)
Lemma core_list_fail k init : forall ms w e w1,
  core_list k w ms init = (Some e, w1) -> w_models w1 = w_models w.
Proof.
  induction ms as [|m rest IH]; intros w e w1 H; simpl in H.
  - discriminate.
  - destruct (add_core1 k w m init) as [oe1 w2] eqn:E1. unfold add_core1 in E1.
    destruct (mem_nat m (w_models w)).
    + injection E1 as <- <-. eapply IH; eauto.
    + destruct (get_state (w_mc w) match init with Some s => s | None => w_initial w end) eqn:Eg.
      * injection E1 as <- <-. exfalso.
        assert (Some e = None); [|discriminate].
        eapply (core_list_ok k init rest); [|exact H]. cbn [w_mc w_initial set_models set_objs]. rewrite Eg. discriminate.
      * injection E1 as <- <-. injection H as _ <-. reflexivity.
Qed.

(* everything above the core loop, as one [grow] step, plus what it guarantees for the listed models *)
Lemma upper_layers_f k known ms w1 r w' :
  graph_list k known (fold_left (lay_queue k) ms (fold_left (lay_locked k) ms (hsm_list k known w1 ms))) ms = (r, w') ->
  grow ms w1 w' /\
  (k_hsm k = true -> forall x, In x ms -> ~ In x known -> has_helper HTo (o_helpers (w_obj w' x)) = true) /\
  (k_locked k = true -> forall x, In x ms -> In x (w_ctx w')) /\
  (per_model_queue k = true -> forall x, In x ms -> In x (w_queues w')).
Proof.
  intro H.
  assert (G1 : grow ms w1 (hsm_list k known w1 ms)).
  { unfold hsm_list. destruct (k_hsm k); [apply grow_fold; apply hsm1_grow | apply grow_refl]. }
  pose proof (grow_fold _ (lay_locked_grow k) ms (hsm_list k known w1 ms)) as G2.
  pose proof (grow_fold _ (lay_queue_grow k) ms (fold_left (lay_locked k) ms (hsm_list k known w1 ms))) as G3.
  pose proof (graph_list_grow _ _ _ _ _ _ H) as G4.
  split; [eapply grow_trans; [exact G1|]; eapply grow_trans; [exact G2|]; eapply grow_trans; [exact G3 | exact G4]|].
  destruct G2 as (_&_&_&_&_&_&B7&B8&_). destruct G3 as (_&_&_&_&_&_&C7&C8&_&C10&_).
  destruct G4 as (_&_&_&_&_&_&D7&D8&_&D10&_).
  splits.
  - intros Hk x Hx Hn. apply D7, C7, B7. unfold hsm_list. rewrite Hk. apply fold_hsm_to; auto.
  - intros Hk x Hx. apply D8, C8. apply fold_locked_in; auto.
  - intros Hk x Hx. apply D10. apply fold_queue_in; auto.
Qed.

Lemma Inv_add_models k w ms init r w' : Inv k w -> add_models k w ms init = (r, w') -> Inv k w'.
Proof.
  intros I H. unfold add_models in H.
  destruct (core_list k w ms init) as [oe w1] eqn:Ec.
  destruct (core_list_f _ _ _ _ _ _ Ec) as [(C1&C2&C3&C4&C5&C6&C7&C8&C9&C10&C11&C12&C13) Call].
  destruct oe as [e|].
  - (* ValueError: nobody was registered *)
    injection H as _ <-. pose proof (core_list_fail _ _ _ _ _ _ Ec) as Hm.
    constructor.
    + rewrite Hm. apply I.
    + rewrite Hm, C1. intros x h Hx He. rewrite C8 by exact Hx. apply I; auto.
    + rewrite Hm. intros x Hx. rewrite C8 by exact Hx. apply I; auto.
    + rewrite Hm, C4. apply I.
    + rewrite Hm, C5. apply I.
  - destruct (upper_layers_f _ _ _ _ _ _ H) as ((G1&G2&G3&G4&G5&G6&G7&G8&G9&G10&G11&G12&G13) & Hto & Hctx & Hq).
    constructor.
    + rewrite G4. apply C13. apply I.
    + rewrite G4, G1, C1. intros x h Hx He.
      destruct (in_dec Nat.eq_dec x (w_models w)) as [Hi|Hn].
      * apply G7. apply C9. apply I; auto.
      * destruct (C12 x Hx Hn) as (D1&D2&D3). destruct He as [Hd|[-> Hk]].
        -- apply G7. apply D2. exact Hd.
        -- apply Hto; auto.
    + rewrite G4. intros x Hx. rewrite G6.
      destruct (in_dec Nat.eq_dec x (w_models w)) as [Hi|Hn]; [apply C10; apply I; auto | apply (C12 x Hx Hn)].
    + rewrite G4. intros Hk x Hx.
      destruct (in_dec Nat.eq_dec x (w_models w)) as [Hi|Hn].
      * apply G8. rewrite C4. apply I; auto.
      * apply Hctx; auto. apply (C12 x Hx Hn).
    + rewrite G4. intros Hk x Hx.
      destruct (in_dec Nat.eq_dec x (w_models w)) as [Hi|Hn].
      * apply G10. rewrite C5. apply I; auto.
      * apply Hq; auto. apply (C12 x Hx Hn).
Qed.

(* ------------------------------------------------------------------ remove_transition *)
Lemma has_del_helper h x l : has_helper h (del_helper x l) = has_helper h l && negb (helper_eqb x h).
Proof.
  unfold del_helper, has_helper. induction l as [|a r IH]; simpl; auto.
  destruct (helper_eqb x a) eqn:E; simpl.
  - apply helper_eqb_eq in E. subst a. rewrite IH.
    destruct (helper_eqb h x) eqn:E2; simpl; auto.
    apply helper_eqb_eq in E2. subst. rewrite helper_eqb_refl. simpl. rewrite andb_false_r. reflexivity.
  - rewrite IH. destruct (helper_eqb h a) eqn:E2; simpl; auto.
    apply helper_eqb_eq in E2. subst a. rewrite E. reflexivity.
Qed.

Lemma remove_key_keys {A} e (l : list (nat * A)) x : In x (map fst (remove_key e l)) <-> In x (map fst l) /\ x <> e.
Proof.
  unfold remove_key. induction l as [|[a v] r IH]; simpl; [tauto|].
  destruct (Nat.eqb a e) eqn:E; simpl.
  - apply Nat.eqb_eq in E. subst a. rewrite IH. intuition. subst. congruence.
  - apply Nat.eqb_neq in E. rewrite IH. intuition. subst. auto.
Qed.

Lemma Inv_remove_transition k w e src dst r w' : Inv k w -> remove_transition k w e src dst = (r, w') -> Inv k w'.
Proof.
  intros I H. unfold remove_transition in H.
  destruct (lookup (m_events (w_mc w)) e) as [ts|] eqn:El.
  - destruct (filter (keep_trans src dst) ts) as [|t0 ts0] eqn:Ef; injection H as _ <-.
    + (* the event is deleted, registered models lose <event> *)
      match goal with |- Inv k (regen_graphs k ?W) => destruct (regen_graphs_f k W) as (R1&R2&R3&R4&R5&R6&R7&R8) end.
      constructor.
      * rewrite R2. apply I.
      * rewrite R1, R2, R3. cbn. intros x h Hx He. unfold unbind_all.
        apply mem_nat_In in Hx. rewrite Hx. apply mem_nat_In in Hx. cbn [o_helpers].
        rewrite has_del_helper. apply andb_true_iff. split.
        -- apply I; auto. destruct He as [Hd|Hr]; [left|right; exact Hr].
           destruct h; cbn in *; auto; apply remove_key_keys in Hd; tauto.
        -- apply negb_true_iff. destruct (helper_eqb (HEv e) h) eqn:E; [|reflexivity].
           apply helper_eqb_eq in E. subst h. destruct He as [Hd|[Hc _]]; [|discriminate].
           cbn in Hd. apply remove_key_keys in Hd. tauto.
      * rewrite R2, R3. cbn. intros x Hx. unfold unbind_all.
        apply mem_nat_In in Hx. rewrite Hx. apply mem_nat_In in Hx. cbn [o_state]. apply I; auto.
      * rewrite R2, R4. apply I.
      * rewrite R2, R5. apply I.
    + match goal with |- Inv k (regen_graphs k ?W) => destruct (regen_graphs_f k W) as (R1&R2&R3&R4&R5&R6&R7&R8) end.
      constructor.
      * rewrite R2. apply I.
      * rewrite R1, R2, R3. cbn. intros x h Hx He. apply I; auto.
        destruct He as [Hd|Hr]; [left|right; exact Hr].
        destruct h; cbn in *; auto; apply set_assoc_keys in Hd; destruct Hd as [Hd| ->]; auto;
          eapply lookup_Some_in; exact El.
      * rewrite R2, R3. apply I.
      * rewrite R2, R4. apply I.
      * rewrite R2, R5. apply I.
  - injection H as _ <-. exact I.
Qed.

(* ------------------------------------------------------------------ the invariant holds after every history *)
Lemma Inv_step k ev w o : Inv k w -> Inv k (step_w k ev w o).
Proof.
  intro I. unfold step_w, step. destruct o as [m init|ms init|m|s sd|e t|e src dst|m bn e a|e a|].
  - destruct (add_model k w m init) as [r w'] eqn:E. simpl. eapply Inv_add_model; eassumption.
  - destruct (add_models k w ms init) as [r w'] eqn:E. simpl. eapply Inv_add_models; eassumption.
  - destruct (remove_model k w m) as [r w'] eqn:E. simpl. eapply Inv_remove_model; eassumption.
  - destruct (add_state k w s sd) as [r w'] eqn:E. simpl. eapply Inv_add_state; eassumption.
  - destruct (add_transition k w e t) as [r w'] eqn:E. simpl. eapply Inv_add_transition; eassumption.
  - destruct (remove_transition k w e src dst) as [r w'] eqn:E. simpl. eapply Inv_remove_transition; eassumption.
  - destruct (trigger_on k ev w m bn e a) as [b w'] eqn:E. simpl.
    destruct (trigger_on_frame _ _ _ _ _ _ _ _ _ E) as (F1 & F2 & F3).
    eapply Inv_multi; [exact I | eapply frame_multi; exact F3].
  - destruct (dispatch_loop k ev (w_models w) w e a) as [[bs r] w'] eqn:E. simpl.
    destruct (dispatch_loop_multi _ _ _ _ _ _ _ _ _ E) as [M _].
    eapply Inv_multi; eassumption.
  - simpl. unfold copy_world. destruct I as [I1 I2 I3 I4 I5].
    destruct (k_locked k) eqn:El, (k_graph k) eqn:Eg; cbn; constructor; cbn; auto;
      intro Hc; rewrite El in Hc; discriminate.
Qed.

Lemma Inv_run k ev hs : forall w, Inv k w -> Inv k (run k ev w hs).
Proof.
  induction hs as [|o r IH]; intros w I; simpl; auto. apply IH. apply Inv_step. exact I.
Qed.

Lemma Inv_reachable k ev mc ini hs : Inv k (run k ev (init_world mc ini) hs).
Proof. apply Inv_run. apply Inv_init. Qed.

(* ------------------------------------------------------------------ statements used by Props/C10.v *)
(* equality of worlds, field by field (objects pointwise) *)
Definition world_eq (w w' : mworld) : Prop :=
  w_mc w' = w_mc w /\ w_initial w' = w_initial w /\ w_models w' = w_models w /\
  (forall x, w_obj w' x = w_obj w x) /\ w_ctx w' = w_ctx w /\ w_graphs w' = w_graphs w /\
  w_queues w' = w_queues w /\ w_pos w' = w_pos w.

Lemma frame_thm k ev w m bn e a bs r w' :
  step k ev w (OTrigger m bn e a) = (bs, r, w') ->
  (forall x, x <> m -> w_obj w' x = w_obj w x) /\
  o_helpers (w_obj w' m) = o_helpers (w_obj w m) /\
  w_models w' = w_models w /\ w_mc w' = w_mc w /\ w_graphs w' = w_graphs w /\ w_queues w' = w_queues w /\
  (forall x, x <> m -> (In x (w_ctx w') <-> In x (w_ctx w))) /\
  (In m (w_ctx w) -> w_ctx w' = w_ctx w) /\
  Forall (fun b => b_model b = m /\ Forall (fun it => it_model it = m) (b_items b)) bs.
Proof.
  unfold step. destruct (trigger_on k ev w m bn e a) as [b w1] eqn:E. intro H.
  injection H as <- _ <-.
  destruct (trigger_on_frame _ _ _ _ _ _ _ _ _ E) as (F1 & F2 & (Fo & Fh & Fmc & Fi & Fm & Fg & Fq & Fc & Fp & Fs)).
  splits; auto.
  - intros x Hx. destruct Fc as [->| ->]; [tauto|]. rewrite add_key_In. intuition.
  - intro Hm. destruct Fc as [->| ->]; [reflexivity | apply add_key_present; exact Hm].
Qed.

Lemma firstn_length_all {A} (l : list A) n : n = length l -> firstn n l = l.
Proof. intros ->. apply firstn_all. Qed.

Lemma dispatch_thm k ev w e a ts bs r w' :
  Inv k w ->
  lookup (m_events (w_mc w)) e = Some ts ->
  step k ev w (ODispatch e a) = (bs, r, w') ->
  let full := dispatch_spec k ev (w_mc w) ts a (map (fun m => (m, state_of w m)) (w_models w)) (w_pos w) in
  NoDup (w_models w) /\ map b_model full = w_models w /\ blocks_tagged full /\
  (forall y, ~ In y (map b_model bs) -> w_obj w' y = w_obj w y) /\
  match r with
  | inr (Some b) => bs = full /\ b = forallb block_ok bs
  | inr None => False
  | inl x => exists pre lst, bs = pre ++ [lst] /\ b_res lst = inl x /\
                             Forall (fun b => block_raised b = false) pre /\ bs = firstn (length bs) full
  end.
Proof.
  intros I El H full. unfold step in H.
  destruct (dispatch_loop k ev (w_models w) w e a) as [[bs1 r1] w1] eqn:E.
  injection H as <- <- <-.
  assert (Hr : forall m, In m (w_models w) -> ready w e m).
  { intros m Hm. split.
    - apply (inv_complete _ _ I); auto. left. simpl. eapply lookup_Some_in. exact El.
    - destruct (o_state (w_obj w m)) eqn:Es; [eexists; reflexivity|].
      exfalso. exact (inv_state _ _ I m Hm Es). }
  destruct (dispatch_loop_spec k ev e a ts _ _ _ _ _ (inv_nodup _ _ I) El Hr E) as (Ho & Hmc & Hm & Hf & Hres).
  assert (Hmod : map b_model full = w_models w) by apply dispatch_spec_models.
  splits.
  - apply I.
  - exact Hmod.
  - apply dispatch_spec_tagged.
  - exact Ho.
  - destruct r1 as [x|b]; simpl.
    + destruct Hres as (pre & lst & H1 & H2 & H3). exists pre, lst. splits; auto.
    + destruct Hres as [Hl Hb]. split; [|exact Hb].
      rewrite Hf. apply firstn_length_all. rewrite Hl. rewrite <- Hmod at 1. rewrite map_length. reflexivity.
Qed.

Lemma late_model_thm k ev mc ini hs m h :
  let w := run k ev (init_world mc ini) hs in
  In m (w_models w) -> expected k (w_mc w) h -> has_helper h (o_helpers (w_obj w m)) = true.
Proof. intros w Hm He. exact (inv_complete _ _ (Inv_reachable k ev mc ini hs) m h Hm He). Qed.

Lemma add_twice_thm k ev w m init bs r w' :
  Inv k w -> In m (w_models w) ->
  step k ev w (OAddModel m init) = (bs, r, w') ->
  bs = [] /\ r = inr None /\ world_eq w w'.
Proof.
  intros I Hm H. unfold step in H. destruct (add_model k w m init) as [r1 w1] eqn:E.
  injection H as <- <- <-. split; [reflexivity|].
  unfold add_model, add_core in E. apply mem_nat_In in Hm. rewrite Hm in E. apply mem_nat_In in Hm.
  unfold lay_graph in E. injection E as <- <-. split; [reflexivity|].
  destruct (lay_locked_f k w m) as (L1&L2&L3&L4&L5&L6&L7&L8&L9).
  destruct (lay_queue_f k (lay_locked k w m) m) as (Q1&Q2&Q3&Q4&Q5&Q6&Q7&Q8&Q9).
  assert (Hc : w_ctx (lay_locked k w m) = w_ctx w).
  { destruct (k_locked k) eqn:Ek; [apply L9; apply (inv_ctx _ _ I); auto|].
    unfold lay_locked. rewrite Ek. reflexivity. }
  assert (Hq : w_queues (lay_queue k (lay_locked k w m) m) = w_queues w).
  { destruct (per_model_queue k) eqn:Ek.
    - rewrite Q9; [exact L4|]. rewrite L4. apply (inv_queue _ _ I); auto.
    - unfold lay_queue. rewrite Ek. exact L4. }
  unfold world_eq. splits; try congruence.
Qed.

(* --- removal *)
Lemma remove_thm k ev w m bs r w' :
  Inv k w -> In m (w_models w) ->
  step k ev w (ORemoveModel m) = (bs, r, w') ->
  r = inr None /\ ~ In m (w_models w') /\
  (k_locked k = true -> ~ In m (w_ctx w')) /\ (per_model_queue k = true -> ~ In m (w_queues w')) /\
  (forall x, w_obj w' x = w_obj w x) /\ w_mc w' = w_mc w /\ w_graphs w' = w_graphs w /\
  (forall x, x <> m -> (In x (w_models w') <-> In x (w_models w))).
Proof.
  intros I Hm H. unfold step, remove_model in H. apply mem_nat_In in Hm. rewrite Hm in H. simpl in H.
  injection H as <- <- <-. apply mem_nat_In in Hm.
  destruct (k_locked k) eqn:Ek, (per_model_queue k) eqn:Eq; cbn; splits; auto;
    try discriminate;
    try (apply remove_first_notin; apply I);
    try (intros _ Hc; apply del_key_In in Hc; tauto);
    try (intros x Hx; split; [apply remove_first_In | apply remove_first_other; exact Hx]).
Qed.

(* --- a model that is not registered is not touched by any operation that does not name it *)
Definition mentions (m : model) (o : op) : Prop :=
  match o with
  | OAddModel m' _ => m' = m | OAddModels ms _ => In m ms | OTrigger m' _ _ _ => m' = m
  | _ => False
  end.

Definition untouched (m : model) (w w' : mworld) : Prop :=
  w_obj w' m = w_obj w m /\ ~ In m (w_models w') /\
  (In m (w_ctx w') -> In m (w_ctx w)) /\ (In m (w_queues w') -> In m (w_queues w)) /\
  (In m (w_graphs w') -> In m (w_graphs w)).

Lemma multi_untouched ms w w' m : multi_rel ms w w' -> ~ In m ms -> ~ In m (w_models w) -> untouched m w w'.
Proof.
  intros (A1&A2&A3&A4&A5&A6&A7&A8&A9&A10) Hn Hm. unfold untouched. splits.
  - apply A1. exact Hn.
  - rewrite A6. exact Hm.
  - intro H. apply A10 in H. tauto.
  - rewrite A8. tauto.
  - rewrite A7. tauto.
Qed.

Lemma add_core_untouched k w m' init oe w1 m :
  add_core k w m' init = (oe, w1) -> m' <> m -> ~ In m (w_models w) ->
  w_obj w1 m = w_obj w m /\ ~ In m (w_models w1) /\ w_ctx w1 = w_ctx w /\ w_queues w1 = w_queues w /\
  w_graphs w1 = w_graphs w.
Proof.
  unfold add_core. intros H Hne Hm.
  destruct (mem_nat m' (w_models w)).
  - injection H as <- <-. splits; auto.
  - destruct (get_state (w_mc w) match init with Some s => s | None => w_initial w end);
      injection H as <- <-; cbn; splits; auto; try (rewrite upd_obj_neq; auto).
    rewrite in_app_iff. simpl. intuition.
Qed.

Lemma step_untouched k ev w o m : ~ In m (w_models w) -> ~ mentions m o -> untouched m w (step_w k ev w o).
Proof.
  intros Hm Ho. unfold step_w, step. destruct o as [m' init|ms init|m'|s sd|e t|e src dst|m' bn e a|e a|]; simpl in Ho.
  - destruct (add_model k w m' init) as [r w'] eqn:E. simpl. unfold add_model in E.
    destruct (add_core k w m' init) as [oe w1] eqn:Ec.
    destruct (add_core_untouched _ _ _ _ _ _ _ Ec Ho Hm) as (C1&C2&C3&C4&C5).
    destruct oe as [x|].
    + injection E as <- <-. unfold untouched. splits; auto; congruence.
    + destruct (layers_f _ _ _ _ _ _ E) as (F1&F2&F3&F4&F5&F6&F7&F8&F9&F10&F11).
      unfold untouched. splits.
      * rewrite F5; auto.
      * rewrite F2. exact C2.
      * intro H. apply F9 in H. rewrite C3 in H. destruct H as [H|[H _]]; [exact H | congruence].
      * intro H. apply F10 in H. rewrite C4 in H. destruct H as [H|[H _]]; [exact H | congruence].
      * intro H. apply F11 in H. rewrite C5 in H. destruct H as [H|H]; [exact H | congruence].
  - destruct (add_models k w ms init) as [r w'] eqn:E. simpl. unfold add_models in E.
    destruct (core_list k w ms init) as [oe w1] eqn:Ec.
    destruct (core_list_f _ _ _ _ _ _ Ec) as [(C1&C2&C3&C4&C5&C6&C7&C8&C9&C10&C11&C12&C13) Call].
    assert (Hm1 : ~ In m (w_models w1)) by (intro Hc; destruct (C12 m Hc Hm) as [Hi _]; contradiction).
    destruct oe as [x|].
    + injection E as _ <-. unfold untouched. splits; auto; try congruence.
    + destruct (upper_layers_f _ _ _ _ _ _ E) as ((G1&G2&G3&G4&G5&G6&G7&G8&G9&G10&G11&G12&G13) & _).
      unfold untouched. splits.
      * rewrite G5 by exact Ho. apply C7. exact Ho.
      * rewrite G4. exact Hm1.
      * intro H. apply G9 in H. rewrite C4 in H. tauto.
      * intro H. apply G11 in H. rewrite C5 in H. tauto.
      * intro H. apply G13 in H. rewrite C6 in H. tauto.
  - destruct (remove_model k w m') as [r w'] eqn:E. simpl. unfold remove_model in E.
    destruct (negb (mem_nat m' (w_models w))).
    + injection E as <- <-. unfold untouched. splits; auto.
    + injection E as <- <-. unfold untouched.
      destruct (k_locked k), (per_model_queue k); cbn; splits; auto;
        try (intro H; apply Hm; eapply remove_first_In; exact H);
        try (intro H; apply del_key_In in H; tauto).
  - destruct (add_state k w s sd) as [r w'] eqn:E. simpl. unfold add_state in E.
    destruct (k_hsm k && match get_state (w_mc w) s with Some _ => true | None => false end).
    + injection E as <- <-. unfold untouched. splits; auto.
    + injection E as <- <-.
      match goal with |- untouched m w (regen_graphs k ?W) => destruct (regen_graphs_f k W) as (R1&R2&R3&R4&R5&R6&R7&R8) end.
      unfold untouched. rewrite R2, R3, R4, R5. cbn. splits; auto.
      * apply (bind_all_f (w_models w) [HIs s] (w_obj w) m). exact Hm.
      * intro H. apply R8 in H. cbn in H. tauto.
  - destruct (add_transition k w e t) as [r w'] eqn:E. simpl. unfold add_transition in E.
    injection E as <- <-.
    match goal with |- untouched m w (regen_graphs k ?W) => destruct (regen_graphs_f k W) as (R1&R2&R3&R4&R5&R6&R7&R8) end.
    unfold untouched. rewrite R2, R3, R4, R5.
    destruct (lookup (m_events (w_mc w)) e); cbn; splits; auto;
      try (intro H; apply R8 in H; cbn in H; tauto).
    apply (bind_all_f (w_models w) (ev_helpers k e) (w_obj w) m). exact Hm.
  - destruct (remove_transition k w e src dst) as [r w'] eqn:E. simpl. unfold remove_transition in E.
    destruct (lookup (m_events (w_mc w)) e) as [ts|].
    + destruct (filter (keep_trans src dst) ts); injection E as _ <-;
        match goal with |- untouched m w (regen_graphs k ?W) => destruct (regen_graphs_f k W) as (R1&R2&R3&R4&R5&R6&R7&R8) end;
        unfold untouched; rewrite R2, R3, R4, R5; cbn; splits; auto;
        try (intro H; apply R8 in H; cbn in H; tauto).
      unfold unbind_all. apply mem_nat_false in Hm. rewrite Hm. reflexivity.
    + injection E as _ <-. unfold untouched. splits; auto.
  - destruct (trigger_on k ev w m' bn e a) as [b w'] eqn:E. simpl.
    destruct (trigger_on_frame _ _ _ _ _ _ _ _ _ E) as (F1 & F2 & F3).
    eapply multi_untouched; [eapply frame_multi; exact F3 | | exact Hm].
    simpl. intuition.
  - destruct (dispatch_loop k ev (w_models w) w e a) as [[bs r] w'] eqn:E. simpl.
    destruct (dispatch_loop_multi _ _ _ _ _ _ _ _ _ E) as [M _].
    eapply multi_untouched; eauto.
  - simpl. unfold copy_world, untouched. destruct (k_locked k), (k_graph k); cbn; splits; auto; intro H; contradiction.
Qed.

Lemma run_untouched k ev m hs : forall w,
  ~ In m (w_models w) -> Forall (fun o => ~ mentions m o) hs -> untouched m w (run k ev w hs).
Proof.
  induction hs as [|o r IH]; intros w Hm Hf; simpl.
  - unfold untouched. splits; auto.
  - inversion Hf; subst.
    destruct (step_untouched k ev w o m Hm H1) as (U1&U2&U3&U4&U5).
    destruct (IH (step_w k ev w o) U2 H2) as (V1&V2&V3&V4&V5).
    unfold untouched. splits; auto; try congruence.
Qed.

(* ------------------------------------------------------------------ two machines on one object *)
Lemma oattr_eqb_eq a b : oattr_eqb a b = true <-> a = b.
Proof.
  destruct a, b; simpl; split; intro H; try discriminate; try reflexivity.
  - apply Nat.eqb_eq in H. congruence.
  - injection H as ->. apply Nat.eqb_refl.
Qed.

Lemma hname_eqb_eq x y : hname_eqb x y = true <-> x = y.
Proof.
  destruct x, y; simpl; split; intro H; try discriminate; try reflexivity;
    try (apply Nat.eqb_eq in H; congruence);
    try (injection H as ->; apply Nat.eqb_refl);
    try (apply andb_true_iff in H; destruct H as [H1 H2]; apply oattr_eqb_eq in H1; apply Nat.eqb_eq in H2; congruence);
    try (injection H as -> ->; apply andb_true_iff; split; [apply oattr_eqb_eq; reflexivity | apply Nat.eqb_refl]).
Qed.

Lemma owner_app tbl n x who :
  owner_of (tbl ++ [(x, who)]) n =
  match owner_of tbl n with Some o => Some o | None => if hname_eqb n x then Some who else None end.
Proof.
  unfold owner_of. induction tbl as [|[y o] r IH]; simpl.
  - destruct (hname_eqb n x); reflexivity.
  - destruct (hname_eqb n y); [reflexivity | exact IH].
Qed.

Lemma owner_bind who ns : forall tbl n,
  owner_of (fold_left (bind_name who) ns tbl) n =
  match owner_of tbl n with
  | Some o => Some o
  | None => if existsb (hname_eqb n) ns then Some who else None
  end.
Proof.
  induction ns as [|x r IH]; intros tbl n; simpl.
  - destruct (owner_of tbl n); reflexivity.
  - rewrite IH. unfold bind_name. destruct (owner_of tbl x) as [ox|] eqn:Ex.
    + destruct (owner_of tbl n) eqn:En; [reflexivity|].
      destruct (hname_eqb n x) eqn:E; [|reflexivity].
      apply hname_eqb_eq in E. subst. congruence.
    + rewrite owner_app. destruct (owner_of tbl n); [reflexivity|].
      destruct (hname_eqb n x); simpl; [reflexivity|]. reflexivity.
Qed.

Definition private (n : hname) : bool := match n with NTrig | NMayTrig => false | _ => true end.

Lemma in_names hsm d n :
  In n (desc_names hsm d) <->
  n = NTrig \/ n = NMayTrig \/ (exists e, In e (d_events d) /\ (n = NEv e \/ n = NMay e)) \/
  (d_auto d = true /\ exists s, In s (d_states d) /\ (n = NTo (qual hsm (d_attr d)) s \/ n = NMayTo (qual hsm (d_attr d)) s)) \/
  (exists s, In s (d_states d) /\ n = NIs (qual hsm (d_attr d)) s).
Proof.
  unfold desc_names. simpl. rewrite !in_app_iff, in_flat_map, in_map_iff. split.
  - intros [H|[H|[H|[H|H]]]]; auto.
    + destruct H as [e [He Hn]]. simpl in Hn. right; right; left. exists e. intuition.
    + destruct (d_auto d); [|destruct H]. apply in_flat_map in H. destruct H as [s [Hs Hn]]. simpl in Hn.
      right; right; right; left. split; auto. exists s. intuition.
    + destruct H as [s [Hn Hs]]. right; right; right; right. exists s. auto.
  - intros [H|[H|[H|[H|H]]]]; auto.
    + destruct H as [e [He Hn]]. right; right; left. exists e. simpl. intuition.
    + destruct H as [Ha [s [Hs Hn]]]. rewrite Ha. right; right; right; left. apply in_flat_map. exists s. simpl. intuition.
    + destruct H as [s [Hs Hn]]. right; right; right; right. exists s. auto.
Qed.

Lemma qual_flat_inj a b : qual false a = qual false b -> a = b.
Proof.
  unfold qual. destruct (Nat.eqb a 0) eqn:Ea, (Nat.eqb b 0) eqn:Eb; intro H; try discriminate.
  - apply Nat.eqb_eq in Ea, Eb. congruence.
  - congruence.
Qed.

Lemma existsb_hname n ns : existsb (hname_eqb n) ns = true <-> In n ns.
Proof.
  rewrite existsb_exists. split.
  - intros [x [Hi He]]. apply hname_eqb_eq in He. subst. exact Hi.
  - intro H. exists n. split; auto. apply hname_eqb_eq. reflexivity.
Qed.

Lemma two_flat_owner d0 d1 :
  d_attr d0 <> d_attr d1 ->
  (forall e, In e (d_events d0) -> ~ In e (d_events d1)) ->
  (forall n, In n (desc_names false d0) -> owner_of (so_tbl (bind_two false d0 d1)) n = Some 0) /\
  (forall n, In n (desc_names false d1) -> private n = true -> owner_of (so_tbl (bind_two false d0 d1)) n = Some 1).
Proof.
  intros Ha He. unfold bind_two, bind_machine. cbn [so_tbl]. split; intros n Hn.
  - rewrite !owner_bind. cbn [owner_of find]. apply existsb_hname in Hn. rewrite Hn. reflexivity.
  - intro Hp. rewrite !owner_bind. cbn [owner_of find].
    assert (Hn0 : existsb (hname_eqb n) (desc_names false d0) = false).
    { destruct (existsb (hname_eqb n) (desc_names false d0)) eqn:E; [|reflexivity]. exfalso.
      apply existsb_hname in E. apply in_names in E. apply in_names in Hn.
      destruct Hn as [->|[->|[[e [Hi Hn]]|[[_ [s [Hs Hn]]]|[s [Hs ->]]]]]]; try discriminate.
      - destruct E as [E|[E|[[e' [Hi' E]]|[[_ [s' [_ E]]]|[s' [_ E]]]]]];
          destruct Hn as [->| ->]; try discriminate; try (destruct E; discriminate).
        + destruct E as [E|E]; try discriminate. injection E as <-. exact (He _ Hi' Hi).
        + destruct E as [E|E]; try discriminate. injection E as <-. exact (He _ Hi' Hi).
      - destruct E as [E|[E|[[e' [Hi' E]]|[[_ [s' [_ E]]]|[s' [_ E]]]]]];
          destruct Hn as [->| ->]; try discriminate; try (destruct E; discriminate).
        + destruct E as [E|E]; try discriminate. injection E as Hq _. apply qual_flat_inj in Hq. congruence.
        + destruct E as [E|E]; try discriminate. injection E as Hq _. apply qual_flat_inj in Hq. congruence.
      - destruct E as [E|[E|[[e' [Hi' E]]|[[_ [s' [_ E]]]|[s' [_ E]]]]]];
          try discriminate; try (destruct E; discriminate).
        injection E as Hq _. apply qual_flat_inj in Hq. congruence. }
    rewrite Hn0. apply existsb_hname in Hn. rewrite Hn. reflexivity.
Qed.

(* calling a helper that machine 1 asked for never changes machine 0's attribute, and vice versa *)
Lemma two_flat_call d0 d1 act n o' :
  d_attr d0 <> d_attr d1 ->
  (forall e, In e (d_events d0) -> ~ In e (d_events d1)) ->
  call_name d0 d1 act (bind_two false d0 d1) n = Some o' ->
  so_tbl o' = so_tbl (bind_two false d0 d1) /\
  (In n (desc_names false d1) -> private n = true ->
   attr_of o' (d_attr d0) = attr_of (bind_two false d0 d1) (d_attr d0)) /\
  (In n (desc_names false d0) ->
   attr_of o' (d_attr d1) = attr_of (bind_two false d0 d1) (d_attr d1)).
Proof.
  intros Ha He H. destruct (two_flat_owner d0 d1 Ha He) as [O0 O1].
  unfold call_name in H. destruct (owner_of (so_tbl (bind_two false d0 d1)) n) as [who|] eqn:Eo; [|discriminate].
  destruct (attr_of (bind_two false d0 d1) (d_attr (if Nat.eqb who 0 then d0 else d1))) as [s|]; [|discriminate].
  injection H as <-. cbn [so_tbl]. split; [reflexivity|]. split.
  - intros Hn Hp. rewrite (O1 n Hn Hp) in Eo. injection Eo as <-. cbn [Nat.eqb].
    unfold attr_of. cbn [so_attrs]. apply lookup_set_assoc_other. exact Ha.
  - intros Hn. rewrite (O0 n Hn) in Eo. injection Eo as <-. cbn [Nat.eqb].
    unfold attr_of. cbn [so_attrs]. apply lookup_set_assoc_other. intro Hc. apply Ha. symmetry. exact Hc.
Qed.

(* ------------------------------------------------------------------ packaged for Props/C10.v *)
Lemma dispatch_reachable k ev mc ini hs e a ts bs r w' :
  let w := run k ev (init_world mc ini) hs in
  lookup (m_events (w_mc w)) e = Some ts ->
  step k ev w (ODispatch e a) = (bs, r, w') ->
  let full := dispatch_spec k ev (w_mc w) ts a (map (fun m => (m, state_of w m)) (w_models w)) (w_pos w) in
  NoDup (w_models w) /\ map b_model full = w_models w /\ blocks_tagged full /\
  (forall y, ~ In y (map b_model bs) -> w_obj w' y = w_obj w y) /\
  match r with
  | inr (Some b) => bs = full /\ b = forallb block_ok bs
  | inr None => False
  | inl x => exists pre lst, bs = pre ++ [lst] /\ b_res lst = inl x /\
                             Forall (fun b => block_raised b = false) pre /\ bs = firstn (length bs) full
  end.
Proof. intro w. apply dispatch_thm. apply Inv_reachable. Qed.

Lemma late_model_names k ev mc ini hs m :
  let w := run k ev (init_world mc ini) hs in
  In m (w_models w) ->
  (forall e, In e (map fst (m_events (w_mc w))) ->
     has_helper (HEv e) (o_helpers (w_obj w m)) = true /\ has_helper (HMay e) (o_helpers (w_obj w m)) = true) /\
  (forall s, In s (map fst (m_states (w_mc w))) -> has_helper (HIs s) (o_helpers (w_obj w m)) = true) /\
  has_helper HTrig (o_helpers (w_obj w m)) = true /\ has_helper HMayTrig (o_helpers (w_obj w m)) = true.
Proof.
  intros w Hm. repeat split; intros; apply (late_model_thm k ev mc ini hs m); auto; left; simpl; auto.
Qed.

Lemma add_twice_reachable k ev mc ini hs m init bs r w' :
  let w := run k ev (init_world mc ini) hs in
  In m (w_models w) ->
  step k ev w (OAddModel m init) = (bs, r, w') ->
  bs = [] /\ r = inr None /\ world_eq w w'.
Proof. intro w. apply add_twice_thm. apply Inv_reachable. Qed.

Lemma remove_reachable k ev mc ini hs m bs r w' :
  let w := run k ev (init_world mc ini) hs in
  In m (w_models w) ->
  step k ev w (ORemoveModel m) = (bs, r, w') ->
  r = inr None /\ ~ In m (w_models w') /\
  (k_locked k = true -> ~ In m (w_ctx w')) /\ (per_model_queue k = true -> ~ In m (w_queues w')) /\
  (forall x, w_obj w' x = w_obj w x) /\ w_mc w' = w_mc w /\ w_graphs w' = w_graphs w /\
  (forall x, x <> m -> (In x (w_models w') <-> In x (w_models w))).
Proof. intro w. apply remove_thm. apply Inv_reachable. Qed.

Definition gk : mclass := mkClass false true false false QNo.
Definition mc1 : machine := mkMachine [(0, mkSdef [] [] false None)] [] [] [] [] [] [] [] false false.
Lemma graph_key_witness :
  exists hs, let w := run gk (fun _ _ => mkReply true None []) (init_world mc1 0) hs in
             mem_nat 0 (w_models w) = false /\ mem_nat 0 (w_graphs w) = true.
Proof. exists [OAddModel 0 None; ORemoveModel 0]. vm_compute. split; reflexivity. Qed.

Lemma two_machines_thm d0 d1 :
  d_attr d0 <> d_attr d1 ->
  (forall e, In e (d_events d0) -> ~ In e (d_events d1)) ->
  (forall n, In n (desc_names false d0) -> owner_of (so_tbl (bind_two false d0 d1)) n = Some 0) /\
  (forall n, In n (desc_names false d1) -> private n = true ->
             owner_of (so_tbl (bind_two false d0 d1)) n = Some 1) /\
  (forall act n o', call_name d0 d1 act (bind_two false d0 d1) n = Some o' ->
     so_tbl o' = so_tbl (bind_two false d0 d1) /\
     (In n (desc_names false d1) -> private n = true ->
      attr_of o' (d_attr d0) = attr_of (bind_two false d0 d1) (d_attr d0)) /\
     (In n (desc_names false d0) ->
      attr_of o' (d_attr d1) = attr_of (bind_two false d0 d1) (d_attr d1))).
Proof.
  intros Ha He. destruct (two_flat_owner d0 d1 Ha He) as [O0 O1].
  split; [exact O0|]. split; [exact O1|]. intros act n o' H. exact (two_flat_call d0 d1 act n o' Ha He H).
Qed.

Definition kf_d0 : mdesc := mkDesc 1 [0; 1] [] true 1.
Definition kf_d1 : mdesc := mkDesc 2 [0; 2] [] true 2.
Lemma two_machines_hsm_witness :
  let o := bind_two true kf_d0 kf_d1 in
  existsb (hname_eqb (NIs None 0)) (desc_names true kf_d1) = true /\ owner_of (so_tbl o) (NIs None 0) = Some 0 /\
  existsb (hname_eqb (NTo None 0)) (desc_names true kf_d1) = true /\ owner_of (so_tbl o) (NTo None 0) = Some 0 /\
  match call_name kf_d0 kf_d1 (fun _ n s => match n with NTo _ t => t | _ => s end) o (NTo None 0) with
  | Some o' => attr_of o' 1 = Some 0 /\ attr_of o' 2 = Some 2
  | None => False
  end.
Proof. vm_compute. repeat split; reflexivity. Qed.

(* what still raises in the graph classes: an object that is NOT registered but already owns get_graph
   (a model removed earlier — nothing unbinds the attribute — or one shared with another graph machine):
   the base add_model registers it, then GraphMachine.add_model raises; no graph is built *)
Opaque machine_helpers add_helpers add_helper.
Lemma graph_readd_thm k ev w m init bs r w' :
  k_graph k = true -> ~ In m (w_models w) ->
  has_helper HGraph (o_helpers (w_obj w m)) = true ->
  get_state (w_mc w) (match init with Some s => s | None => w_initial w end) <> None ->
  step k ev w (OAddModel m init) = (bs, r, w') ->
  r = inl AttributeError /\ w_models w' = w_models w ++ [m] /\ w_graphs w' = w_graphs w /\
  o_state (w_obj w' m) = Some (match init with Some s => s | None => w_initial w end).
Proof.
  intros Hk Hm Hg Hs H. unfold step in H. destruct (add_model k w m init) as [r1 w1] eqn:E.
  injection H as _ <- <-. unfold add_model, add_core in E.
  apply mem_nat_false in Hm. rewrite Hm in E.
  destruct (get_state (w_mc w) match init with Some s => s | None => w_initial w end) as [sd|]; [|congruence].
  match type of E with lay_graph k false (lay_queue k (lay_locked k ?W m) m) m = _ => set (w0 := W) in * end.
  destruct (lay_locked_f k w0 m) as (L1&L2&L3&L4&L5&L6&L7&L8&L9).
  destruct (lay_queue_f k (lay_locked k w0 m) m) as (Q1&Q2&Q3&Q4&Q5&Q6&Q7&Q8&Q9).
  assert (Hh : has_helper HGraph (o_helpers (w_obj (lay_queue k (lay_locked k w0 m) m) m)) = true).
  { rewrite Q3, L3. unfold w0. cbn [w_obj set_models set_objs]. rewrite upd_obj_eq. cbn [o_helpers].
    assert (Hb : has_helper HGraph (add_helpers (machine_helpers k (w_mc w)) (o_helpers (w_obj w m))) = true)
      by (rewrite has_add_helpers, Hg; reflexivity).
    destruct (k_hsm k); [rewrite has_add_helper, Hb; reflexivity | exact Hb]. }
  unfold lay_graph in E. rewrite Hk, Hh in E. injection E as <- <-.
  splits; auto.
  - rewrite Q2, L2. reflexivity.
  - rewrite Q5, L5. reflexivity.
  - rewrite Q3, L3. unfold w0. cbn [w_obj set_models set_objs]. rewrite upd_obj_eq. reflexivity.
Qed.
Transparent machine_helpers add_helpers add_helper.

Lemma graph_readd_witness :
  match step gk (fun _ _ => mkReply true None [])
             (run gk (fun _ _ => mkReply true None []) (init_world mc1 0) [OAddModel 0 None; ORemoveModel 0])
             (OAddModel 0 None) with
  | (_, r, w') => r = inl AttributeError /\ w_models w' = [0]
  end.
Proof. vm_compute. split; reflexivity. Qed.

(* ------------------------------------------------------------------ add_model([..]) of registered models *)
Lemma world_eq_refl w : world_eq w w.
Proof. unfold world_eq. splits; auto. Qed.
Lemma world_eq_trans w w1 w2 : world_eq w w1 -> world_eq w1 w2 -> world_eq w w2.
Proof.
  intros (A1&A2&A3&A4&A5&A6&A7&A8) (B1&B2&B3&B4&B5&B6&B7&B8). unfold world_eq. splits; try congruence.
Qed.

Lemma core_list_reg k init : forall ms w, (forall x, In x ms -> In x (w_models w)) -> core_list k w ms init = (None, w).
Proof.
  induction ms as [|m r IH]; intros w H; simpl; auto.
  unfold add_core1. assert (Hm : mem_nat m (w_models w) = true) by (apply mem_nat_In; apply H; left; reflexivity).
  rewrite Hm. apply IH. intros x Hx. apply H. right. exact Hx.
Qed.

Lemma hsm_list_known k known : forall ms w, (forall x, In x ms -> In x known) -> hsm_list k known w ms = w.
Proof.
  intros ms w H. unfold hsm_list. destruct (k_hsm k); [|reflexivity].
  revert w. induction ms as [|m r IH]; intro w; simpl; auto.
  unfold hsm1 at 2. assert (Hm : mem_nat m known = true) by (apply mem_nat_In; apply H; left; reflexivity).
  rewrite Hm. apply IH. intros x Hx. apply H. right. exact Hx.
Qed.

Lemma fold_locked_eq k : forall ms w, (k_locked k = true -> forall x, In x ms -> In x (w_ctx w)) ->
  world_eq w (fold_left (lay_locked k) ms w).
Proof.
  induction ms as [|m r IH]; intros w H; simpl; [apply world_eq_refl|].
  destruct (lay_locked_f k w m) as (L1&L2&L3&L4&L5&L6&L7&L8&L9).
  assert (Hc : w_ctx (lay_locked k w m) = w_ctx w).
  { destruct (k_locked k) eqn:Ek; [apply L9; apply H; auto; left; reflexivity|].
    unfold lay_locked. rewrite Ek. reflexivity. }
  eapply world_eq_trans; [|apply IH].
  - unfold world_eq. splits; try congruence.
  - intros Hk x Hx. rewrite Hc. apply H; auto. right. exact Hx.
Qed.

Lemma fold_queue_eq k : forall ms w, (per_model_queue k = true -> forall x, In x ms -> In x (w_queues w)) ->
  world_eq w (fold_left (lay_queue k) ms w).
Proof.
  induction ms as [|m r IH]; intros w H; simpl; [apply world_eq_refl|].
  destruct (lay_queue_f k w m) as (L1&L2&L3&L4&L5&L6&L7&L8&L9).
  assert (Hc : w_queues (lay_queue k w m) = w_queues w).
  { destruct (per_model_queue k) eqn:Ek; [apply L9; apply H; auto; left; reflexivity|].
    unfold lay_queue. rewrite Ek. reflexivity. }
  eapply world_eq_trans; [|apply IH].
  - unfold world_eq. splits; try congruence.
  - intros Hk x Hx. rewrite Hc. apply H; auto. right. exact Hx.
Qed.

(* one add_model call listing only registered models — each of them any number of times — has no effect *)
Lemma add_twice_list_thm k ev w ms init bs r w' :
  Inv k w -> (forall x, In x ms -> In x (w_models w)) ->
  step k ev w (OAddModels ms init) = (bs, r, w') ->
  bs = [] /\ r = inr None /\ world_eq w w'.
Proof.
  intros I Hreg H. unfold step in H. destruct (add_models k w ms init) as [r1 w1] eqn:E.
  injection H as <- <- <-. split; [reflexivity|].
  unfold add_models in E. rewrite (core_list_reg k init ms w Hreg) in E.
  rewrite (hsm_list_known k (w_models w) ms w Hreg) in E.
  rewrite (graph_list_known k ms (w_models w) _ Hreg) in E. injection E as <- <-. split; [reflexivity|].
  eapply world_eq_trans.
  - apply (fold_locked_eq k ms w). intros Hk x Hx. apply (inv_ctx _ _ I); auto.
  - apply fold_queue_eq. intros Hk x Hx.
    destruct (fold_locked_eq k ms w) as (_&_&_&_&_&_&Q&_).
    + intros Hk' y Hy. apply (inv_ctx _ _ I); auto.
    + rewrite Q. apply (inv_queue _ _ I); auto.
Qed.

Lemma add_twice_list_reachable k ev mc ini hs ms init bs r w' :
  let w := run k ev (init_world mc ini) hs in
  (forall x, In x ms -> In x (w_models w)) ->
  step k ev w (OAddModels ms init) = (bs, r, w') ->
  bs = [] /\ r = inr None /\ world_eq w w'.
Proof. intro w. apply add_twice_list_thm. apply Inv_reachable. Qed.

(* the same object listed several times in ONE call / in the constructor list is registered once *)
Lemma in_call_repetition_witness :
  let k := mkClass true false true false QNo in
  let ev := fun (_ _ : nat) => mkReply true None [] in
  let t := mkTrans 0 (Some 0) [] [] [] [] in
  let w := run k ev (init_world mc1 0) [OAddModels [0; 1; 0] None; OAddTransition 5 t; OAddModels [2; 2; 0] None] in
  w_models w = [0; 1; 2] /\ w_ctx w = [0; 1; 2] /\
  match step k ev w (ODispatch 5 7) with (bs, r, _) => map b_model bs = [0; 1; 2] /\ r = inr (Some true) end /\
  w_models (step_w k ev w (ORemoveModel 0)) = [1; 2].
Proof. vm_compute. repeat split; reflexivity. Qed.

(* ------------------------------------------------------------------ remove_model([m1; m2; ...]) from a callback
   while events are pending (Queue.v removes the listed models one after the other): the event in progress
   stays, exactly the pending events of the listed models disappear — of ALL of them, not only of the last *)
From M Require Import Queue.
From P Require Import QueueP.

Lemma filter_all_true {A} (f : A -> bool) l : (forall x, f x = true) -> filter f l = l.
Proof. intro H. induction l as [|a r IH]; simpl; auto. rewrite H, IH. reflexivity. Qed.

Lemma filter_twice {A} (f g : A -> bool) l : filter f (filter g l) = filter (fun x => g x && f x) l.
Proof.
  induction l as [|a r IH]; simpl; auto. destruct (g a); simpl; [|exact IH].
  destruct (f a); rewrite IH; reflexivity.
Qed.

Lemma filter_same {A} (f g : A -> bool) l : (forall x, f x = g x) -> filter f l = filter g l.
Proof. intro H. induction l as [|a r IH]; simpl; auto. rewrite H, IH. reflexivity. Qed.

Lemma existsb_filter_sub m (f : nat -> bool) l :
  existsb (Nat.eqb m) l = false -> existsb (Nat.eqb m) (filter f l) = false.
Proof.
  induction l as [|a r IH]; simpl; auto. intro H. apply orb_false_iff in H. destruct H as [H1 H2].
  destruct (f a); simpl; [rewrite H1; simpl|]; auto.
Qed.

Section RemoveList.
  Variable payload : qentry -> nat -> nat.

  Lemma remove_models_step cur k m (s : qstate) h tl :
    qs_queue s = h :: tl -> existsb (Nat.eqb m) (qs_models s) = true ->
    qs_queue (apply_action payload cur k (ARemoveModel m) s) = h :: filter (fun x => negb (Nat.eqb (q_model x) m)) tl /\
    qs_models (apply_action payload cur k (ARemoveModel m) s) = remove_model_list (qs_models s) m.
  Proof.
    intros Q M. cbn [apply_action]. rewrite M. cbn [negb]. rewrite Q. cbn. split; reflexivity.
  Qed.

  Lemma removed_stays_removed cur m : forall rest k (s : qstate),
    existsb (Nat.eqb m) (qs_models s) = false ->
    existsb (Nat.eqb m) (qs_models (apply_actions payload cur k (map ARemoveModel rest) s)) = false.
  Proof.
    induction rest as [|y r IHr]; intros k s Hg; cbn [map apply_actions]; [exact Hg|].
    apply IHr. cbn [apply_action].
    destruct (negb (existsb (Nat.eqb y) (qs_models s))); [exact Hg|].
    destruct (qs_queue s); cbn [qs_models]; unfold remove_model_list; apply existsb_filter_sub; exact Hg.
  Qed.

  Lemma remove_list_exact cur : forall ms k (s : qstate) h tl,
    qs_queue s = h :: tl -> NoDup ms ->
    (forall m, In m ms -> existsb (Nat.eqb m) (qs_models s) = true) ->
    let s' := apply_actions payload cur k (map ARemoveModel ms) s in
    qs_queue s' = h :: filter (fun x => negb (mem_nat (q_model x) ms)) tl /\
    (forall m, In m ms -> existsb (Nat.eqb m) (qs_models s') = false).
  Proof.
    induction ms as [|m rest IH]; intros k s h tl Q Hnd Hreg; cbn [map apply_actions].
    - split; [|intros m []]. rewrite Q. f_equal. symmetry. apply filter_all_true. intro x. reflexivity.
    - inversion Hnd as [|? ? Hni Hnd']; subst.
      destruct (remove_models_step cur k m s h tl Q (Hreg m (or_introl eq_refl))) as [Q1 M1].
      assert (Hreg1 : forall y, In y rest ->
                existsb (Nat.eqb y) (qs_models (apply_action payload cur k (ARemoveModel m) s)) = true).
      { intros y Hy. rewrite M1. unfold remove_model_list. apply existsb_exists.
        pose proof (Hreg y (or_intror Hy)) as Hy'. apply existsb_exists in Hy'. destruct Hy' as [z [Hz Hzy]].
        exists z. split; [|exact Hzy]. apply filter_In. split; [exact Hz|].
        apply Nat.eqb_eq in Hzy. subst z. apply negb_true_iff. apply Nat.eqb_neq. intro Hc. subst. contradiction. }
      destruct (IH (S k) _ h _ Q1 Hnd' Hreg1) as [Q2 M2]. split.
      + rewrite Q2. f_equal. rewrite filter_twice. apply filter_same. intro x.
        unfold mem_nat. cbn [existsb]. rewrite negb_orb. reflexivity.
      + intros y [<-|Hy]; [|apply M2; exact Hy].
        (* m itself: removed by the first step, never re-added *)
        clear IH Q2 M2 Hreg1 Q1.
        assert (Hgone : existsb (Nat.eqb m) (qs_models (apply_action payload cur k (ARemoveModel m) s)) = false).
        { rewrite M1. unfold remove_model_list. destruct (existsb _ _) eqn:E; [|reflexivity].
          apply existsb_exists in E. destruct E as [z [Hz Hzm]]. apply filter_In in Hz. destruct Hz as [_ Hz].
          apply Nat.eqb_eq in Hzm. subst z. rewrite Nat.eqb_refl in Hz. discriminate. }
        apply removed_stays_removed. exact Hgone.
  Qed.
End RemoveList.

(* ------------------------------------------------------------------ a model's own initial state (hierarchical) *)
Lemma own_add_keeps states dflt w a x f :
  In (x, f) w -> In (x, f) (own_add states dflt w a).
Proof.
  intro H. unfold own_add. destruct (existsb (fun p => Nat.eqb (fst p) (fst a)) w); [exact H | apply in_or_app; left; exact H].
Qed.

Lemma own_add_keys states dflt w a x :
  In x (map fst (own_add states dflt w a)) <-> In x (map fst w) \/ x = fst a.
Proof.
  unfold own_add. destruct (existsb (fun p => Nat.eqb (fst p) (fst a)) w) eqn:E.
  - apply existsb_exists in E. destruct E as [[y g] [Hy He]]. simpl in He. apply Nat.eqb_eq in He. subst y.
    split; [tauto|]. intros [H| ->]; [exact H|]. apply in_map_iff. exists (fst a, g). split; auto.
  - rewrite map_app, in_app_iff. simpl. intuition.
Qed.

Lemma own_run_keeps states dflt adds : forall w x f, In (x, f) w -> In (x, f) (own_run states dflt adds w).
Proof.
  induction adds as [|a r IH]; intros w x f H; simpl; auto. apply IH. apply own_add_keeps. exact H.
Qed.

(* every model added with its own initial state (or None = the machine's) is in exactly the configuration of
   that state — whatever was added before or is added after it, whatever the other models' states are *)
Lemma own_initial_thm states dflt : forall adds1 m init adds2 w,
  ~ In m (map fst (own_run states dflt adds1 w)) ->
  In (m, own_config states (match init with Some p => p | None => dflt end))
     (own_run states dflt (adds1 ++ (m, init) :: adds2) w).
Proof.
  intros adds1 m init adds2 w Hn. unfold own_run in *. rewrite fold_left_app. simpl.
  apply own_run_keeps. unfold own_add at 1. simpl.
  destruct (existsb (fun p => Nat.eqb (fst p) m) (fold_left (own_add states dflt) adds1 w)) eqn:E.
  - exfalso. apply Hn. apply existsb_exists in E. destruct E as [[y g] [Hy He]]. simpl in He.
    apply Nat.eqb_eq in He. subst y. apply in_map_iff. exists (m, g). split; auto.
  - apply in_or_app. right. left. reflexivity.
Qed.

(* ... and the configurations stay a function of the model: no model is listed twice *)
Lemma own_run_nodup states dflt : forall adds w, NoDup (map fst w) -> NoDup (map fst (own_run states dflt adds w)).
Proof.
  induction adds as [|a r IH]; intros w H; simpl; auto. apply IH.
  unfold own_add. destruct (existsb (fun p => Nat.eqb (fst p) (fst a)) w) eqn:E; [exact H|].
  rewrite map_app. simpl. apply NoDup_snoc; [exact H|].
  intro Hc. apply in_map_iff in Hc. destruct Hc as [[y g] [He Hy]]. simpl in He. subst y.
  assert (existsb (fun p => Nat.eqb (fst p) (fst a)) w = true); [|congruence].
  apply existsb_exists. exists (fst a, g). split; [exact Hy | apply Nat.eqb_refl].
Qed.

Lemma copy_thm k ev w :
  step k ev w OCopy = ([], inr None, copy_world k w) /\
  w_models (copy_world k w) = w_models w /\ w_obj (copy_world k w) = w_obj w /\
  w_queues (copy_world k w) = w_queues w /\ w_mc (copy_world k w) = w_mc w /\
  (forall x, In x (w_ctx (copy_world k w)) -> In x (w_ctx w) \/ In x (w_models w)) /\
  (forall x, In x (w_graphs (copy_world k w)) -> In x (w_graphs w) \/ In x (w_models w)).
Proof. unfold step, copy_world. destruct (k_locked k), (k_graph k); cbn; splits; auto. Qed.

(* a trigger whose transitions were all removed and which is declared again is bound on EVERY registered model —
   those added before the removal and those added after it — and dispatch reaches each once (hierarchical flags) *)
Lemma trigger_rebound_witness :
  let k := mkClass false false true false QNo in
  let ev := fun (_ _ : nat) => mkReply true None [] in
  let t := mkTrans 0 (Some 0) [] [] [] [] in
  let w := run k ev (init_world mc1 0)
               [OAddModel 0 None; OAddTransition 5 t; ORemoveTransition 5 None None; OAddModel 1 None;
                OAddTransition 5 t] in
  has_helper (HEv 5) (o_helpers (w_obj w 0)) = true /\ has_helper (HMay 5) (o_helpers (w_obj w 0)) = true /\
  has_helper (HEv 5) (o_helpers (w_obj w 1)) = true /\ has_helper (HMay 5) (o_helpers (w_obj w 1)) = true /\
  has_helper (HEv 5) (o_helpers (w_obj (run k ev (init_world mc1 0)
               [OAddModel 0 None; OAddTransition 5 t; ORemoveTransition 5 None None]) 0)) = false /\
  match step k ev w (ODispatch 5 7) with (bs, r, _) => map b_model bs = [0; 1] /\ r = inr (Some true) end.
Proof. vm_compute. repeat split; reflexivity. Qed.
