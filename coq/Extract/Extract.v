(* Extraction of the executable model.  Only ExtrOcamlBasic is used: bool, option,
   unit, list, prod, sumbool, sumor are mapped to OCaml's; nat stays an inductive. *)
From Coq Require Import extraction.Extraction ExtrOcamlBasic.
From M Require Import Sx Dispatch.
Extraction Language OCaml.
Extraction "../ocaml/model.ml" dispatch.
