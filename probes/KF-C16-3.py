# KF-C16-3 (C16, reported, undecided): an on_exit callback fires a follow-up state-changing event on an unqueued graph
# machine (A --go--> B, on_exit of A fires x: A --> D once).  The follow-up transition runs to completion inside the
# callback (styling: A previous, D active), then the outer transition continues, puts the model into B and adds
# 'active' for B without resetting: the model is in B but B and D are both styled active.  This is the witness of
# Props/C16.v C16_styles_exit_refuted (the Coq model mirrors the library).  Property: "no state other than the model's
# current state(s) is styled active".
import re
from transitions import MachineError
from transitions.extensions import GraphMachine, HierarchicalGraphMachine
def styles(src): return dict(re.findall(r'^\s*Class (\S+) s_(\S+)\s*$', src, flags=re.M))
for cls in (GraphMachine, HierarchicalGraphMachine):
    class M:
        budget = 1
        def leave(self):
            if self.budget > 0:
                self.budget -= 1
                self.x()
    m = M()
    cls(m, states=[{'name': 'A', 'on_exit': 'leave'}, 'B', 'C', 'D'], initial='A',
        transitions=[['go', 'A', 'B'], ['x', 'A', 'D']], auto_transitions=False, graph_engine='mermaid')
    m.go()
    print(cls.__name__, m.state, styles(m.get_graph().draw(None)))
