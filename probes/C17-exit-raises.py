"""Observation made while building C17 (outside its quantifier: no failing callbacks there):
Timeout.exit cancels the timer BEFORE the on_exit callbacks run; when one of them raises, the transition is
aborted, the model stays in the state, and its timeout never fires.  (virtual timer, no sleeping)"""
import sys
import os
sys.path.insert(0, os.environ.get('VERIF_REPO', '/repo'))
sys.path.insert(0, os.path.join(os.path.dirname(os.path.abspath(__file__)), '..', 'harness'))
import c17
from transitions import Machine
from transitions.extensions import states as S
clock = c17.VClock(); S.Timer = c17.make_vtimer(clock)
log = []
def boom(ed): raise ValueError('exit callback failed')
@S.add_state_features(S.Timeout)
class M(Machine): pass
m = M(states=[dict(name='A', timeout=3, on_timeout=lambda ed: log.append(('timeout A', clock.now)), on_exit=boom), 'B'],
      transitions=[['go', 'B', 'A'], ['leave', 'A', 'B']], initial='B', send_event=True)
m.go(); clock.advance(1)
try: m.leave()
except ValueError as e: print('leave raised', e, '; state', m.state)
clock.advance(10)
print('state', m.state, 'log', log, 'clock', clock.now)
