import pickle, asyncio
from transitions.extensions import AsyncMachine, AsyncGraphMachine, HierarchicalAsyncMachine, HierarchicalAsyncGraphMachine
class Model: pass
for cls in (AsyncMachine, AsyncGraphMachine, HierarchicalAsyncMachine, HierarchicalAsyncGraphMachine):
    kw = dict(graph_engine='mermaid') if 'Graph' in cls.__name__ else {}
    for q in (False, True, 'model'):
        mach = cls(model=[Model(), Model()], states=['A','B','C'], initial='A', queued=q, transitions=[['go','A','B'],['go','B','C']], **kw)
        asyncio.run(mach.models[0].go())
        c = pickle.loads(pickle.dumps(mach))
        r = asyncio.run(c.models[0].go()); r2 = asyncio.run(c.models[1].go())
        keys_ok = (q != 'model') or set(c._transition_queue_dict) == {id(x) for x in c.models}
        extra = Model(); c.add_model(extra); asyncio.run(extra.go()); c.remove_model(c.models[0])
        assert r and r2 and keys_ok and [x.state for x in c.models] == ['B', 'B'] and mach.models[0].state == 'B', (cls, q)
        if kw: assert set(c.model_graphs) >= {id(x) for x in c.models}
        pickle.loads(pickle.dumps(c.models[0]))
print('ok')
