# KF-C06-2 (C06, candidate): LockedMachine - an event on ANOTHER model triggered from a callback by the thread
# that is inside takes the re-entrant path of LockedEvent.trigger (ident.current == get_ident()): the contexts
# configured for that model are not entered while its event is processed.
import os, sys
sys.path.insert(0, os.path.dirname(os.path.abspath(__file__)))
from _c06_ctx import Ctx, Model
from transitions.extensions import LockedMachine

log = []
m1, m2 = Model(), Model()


def before_go():
    log.append('callback of go (model1)')
    m2.other()                      # nested event on another model


m = LockedMachine(model=None, states=['A', 'B'], initial='A', auto_transitions=False,
                  machine_context=[Ctx('machine', log)])
m.add_model(m1, model_context=[Ctx('model1', log)])
m.add_model(m2, model_context=[Ctx('model2', log)])
m.add_transition('go', 'A', 'B', before=before_go)
m.add_transition('other', 'A', 'B', before=lambda: log.append('callback of other (model2)'))
del log[:]
m1.go()
print(log)
assert log == ['enter machine', 'enter model1', 'callback of go (model1)', 'callback of other (model2)',
               'exit model1', 'exit machine']          # the finding: 'model2' is never entered
assert m2.state == 'B'
