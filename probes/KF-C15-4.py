# KF-C15-4 (C15, candidate): a graph machine pickled THROUGH one of its models.  pickle.dumps(model) reaches the
# machine through the model's trigger partials; on loading, the machine (and GraphMachine.__setstate__) is restored
# while the copy of that model is still an empty shell: _get_graph(model, force_new) cannot read its state
# ("Could not set active state of diagram"), so the copy's diagram styles NO state as active although the model
# is in state B.  Every other model of the machine, and the same model when the MACHINE is pickled, is drawn
# correctly; the difference disappears with the model's next transition.
import pickle
from transitions.extensions import GraphMachine, HierarchicalGraphMachine, LockedGraphMachine, AsyncGraphMachine


class Model(object):
    pass


for cls in (GraphMachine, HierarchicalGraphMachine, LockedGraphMachine, AsyncGraphMachine):
    a, b = Model(), Model()
    m = cls(model=[a, b], states=['A', 'B', 'C'], initial='B', graph_engine='mermaid',
            transitions=[['go', 'A', 'B'], ['go', 'B', 'C']])
    fresh = a.get_graph(force_new=True).source
    assert 'Class B s_active' in fresh
    via_machine = pickle.loads(pickle.dumps(m)).models[0].get_graph().source
    a2 = pickle.loads(pickle.dumps(a))
    via_model = a2.get_graph().source
    print(cls.__name__, '| machine pickled: B active:', 'Class B s_active' in via_machine,
          '| model pickled: B active:', 'Class B s_active' in via_model, '(state %s)' % a2.state)
    assert via_machine == fresh
    assert a2.state == 'B' and 'Class B s_active' not in via_model and 'Class B s_default' in via_model   # the finding
