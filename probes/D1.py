# D1 (C05): removing a *different* model from a callback replays the event in progress.
from transitions import Machine
class M: pass
a, b = M(), M()
log = []
m = Machine(model=[a, b], states=['A', 'B', 'C'], initial='A', queued=True,
            transitions=[['go', 'A', 'B'], ['go', 'B', 'C']],
            after_state_change=lambda: (log.append('after'), m.remove_model(b) if b in m.models else None))
a.go()
print(a.state, log)
assert a.state == 'B', a.state   # 'C' on the defective tree: go was processed twice
