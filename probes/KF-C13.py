# D27 (C13): add_ordered_transitions with Enum members does not rotate to the initial state;
# D28 (C13): Machine.remove_transition with an Enum/State source or dest removes nothing.
from enum import Enum
from transitions import Machine
class E(Enum):
    A = 1; B = 2; C = 3
m = Machine(states=E, initial=E.B, auto_transitions=False)
m.add_ordered_transitions(states=[E.A, E.B, E.C], loop=False)
edges = sorted((t.source, t.dest) for t in m.get_transitions('next_state'))
print(edges)
assert edges == [('B', 'C'), ('C', 'A')], edges
m2 = Machine(states=E, initial=E.A, auto_transitions=False)
m2.add_transition('go', E.A, E.B); m2.add_transition('stay', E.A, E.A)
m2.remove_transition('go', source=E.A)
print(list(m2.events))
assert 'go' not in m2.events
