"""D39: GraphMachine.add_model with a list naming a NEW model twice raised AttributeError ('Model already has a
get_graph attribute') half-way: the models were registered, later ones had no graph (Machine deduplicates in-call
repetitions; so must the graph layer)."""
from transitions import Machine
from transitions.extensions import GraphMachine


class M(object):
    pass


for cls in (Machine, GraphMachine):
    m, o = M(), M()
    kw = dict(graph_engine='mermaid') if cls is GraphMachine else {}
    g = cls(model=None, states=['A', 'B'], initial='A', **kw)
    g.add_model([m, m, o])
    assert g.models == [m, o]
    if cls is GraphMachine:
        assert m.get_graph() is not None and o.get_graph() is not None
    g2 = cls(model=[m, o, m] if cls is Machine else [M(), M()], states=['A', 'B'], initial='A', **kw)
a, b = M(), M()
g3 = GraphMachine(model=[a, b, a], states=['A', 'B'], initial='A', graph_engine='mermaid')
assert g3.models == [a, b]
print('ok')
