# KF-C13-2 (C13): a model method on_enter_<state> / on_exit_<state> is registered automatically unless the state
# already mentions it BY NAME; mentioning the same bound method by reference is not recognised, so it runs twice -
# "by name" and "by reference" are not equivalent for exactly these methods.
from transitions import Machine
log = []
class Mo(object):
    def on_enter_B(self):
        log.append('on_enter_B')
mo = Mo()
Machine(mo, states=['A', {'name': 'B', 'on_enter': ['on_enter_B']}], initial='A')
mo.to_B(); print('by name     :', log)
del log[:]
mo = Mo()
Machine(mo, states=['A', {'name': 'B', 'on_enter': [mo.on_enter_B]}], initial='A')
mo.to_B(); print('by reference:', log)
