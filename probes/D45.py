"""D45: NestedTransition._enter_nested keyed the new state tree by state.name, which is scope dependent while a
callback of that state is running: an on_enter callback of a state entered as an initial child that triggered an event
re-entering the parent (so the same child is entered again through 'initial') produced names like 'A_A_2' and
ValueError 'State A_A_2 is not a registered state'."""
from transitions.extensions import HierarchicalMachine


class M(object):
    pass


for parallel in (True, False):
    m = M()
    n = [0]

    def kick():
        n[0] += 1
        if n[0] == 1:
            m.again()
    A = {'name': 'A', 'children': ['1', {'name': '2', 'on_enter': [kick]}], 'initial': (['1', '2'] if parallel else '2')}
    h = HierarchicalMachine(m, states=[A, 'B'], initial='B', auto_transitions=False,
                            transitions=[['go', 'B', 'A'], ['again', 'A', 'A']])
    assert m.go() is True
    assert m.state == (['A_1', 'A_2'] if parallel else 'A_2'), m.state
    assert n[0] == 2
print('ok')
