"""D43: LockedHierarchicalGraphMachine and HierarchicalAsyncGraphMachine did not inherit HierarchicalMarkupMachine, so
the fixes D26 (markup generated from the root scope) and D29 (on_enter/on_exit invalidate the markup) did not reach
them: adding a compound state after a model declared phantom top-level states in the diagram, and callbacks added
through machine.on_enter/on_exit left the markup stale."""
from transitions.extensions import (HierarchicalGraphMachine, LockedHierarchicalGraphMachine,
                                    HierarchicalAsyncGraphMachine)


class M(object):
    pass


def cb():
    pass


ref = None
for cls in (HierarchicalGraphMachine, LockedHierarchicalGraphMachine, HierarchicalAsyncGraphMachine):
    m = M()
    h = cls(m, states=['P', 'H'], initial='H', graph_engine='mermaid', auto_transitions=False)
    h.add_states({'name': 'T', 'children': ['K', 'idle'], 'initial': 'idle'})
    src = m.get_graph().draw(None)
    assert 'state "K" as K' not in src and 'state "idle" as idle' not in src, (cls.__name__, src)
    assert 'children' not in h.markup, cls.__name__
    _ = h.markup
    h.on_enter('T_K', cb)
    h.on_exit('P', cb)
    st = {s['name']: s for s in h.markup['states']}
    assert st['P'].get('on_exit') == ['cb'], (cls.__name__, st['P'])
    kids = {s['name']: s for s in st['T']['children']}
    assert kids['K'].get('on_enter') == ['cb'], (cls.__name__, kids['K'])
    ref = ref or h.markup['states']
    assert h.markup['states'] == ref, cls.__name__
print('ok')
