# KF-C19-5 (C19): Retry decides "entered from another state" by transition.source != state.name; for a reflexive
# transition declared INSIDE a nested state's definition the source is relative ('r') while the state's name carries
# the path ('A_r') during its enter callbacks: every re-entry resets the counter, on_failure never fires.
from transitions.extensions import HierarchicalMachine
from transitions.extensions.states import add_state_features, Retry
@add_state_features(Retry)
class RH(HierarchicalMachine):
    pass
log = []
def failed(): log.append('failed')
h = RH(states=[{'name': 'A', 'initial': 'x', 'children': [{'name': 'r', 'retries': 1, 'on_failure': failed}, 'x'],
                'transitions': [['start', 'x', 'r'], ['again', 'r', 'r']]}], initial='A', auto_transitions=False)
h.start()
for _ in range(5):
    h.again()
print('declared inside A :', log, dict(h.get_state('A_r').retry_counts))
del log[:]
g = RH(states=[{'name': 'A', 'initial': 'x', 'children': [{'name': 'r', 'retries': 1, 'on_failure': failed}, 'x']}],
       initial='A', auto_transitions=False, transitions=[['start', 'A_x', 'A_r'], ['again', 'A_r', 'A_r']])
g.start()
for _ in range(5):
    g.again()
print('declared globally :', log)
