"""Observation made while building C17 (reconfiguration of state.timeout at run time):
AsyncTimeout.create_timer reads self.timeout inside the timer task (`await asyncio.sleep(self.timeout)`), i.e. when
the task first RUNS — one turn of the event loop after the state was entered — not when the state is entered.  If
state.timeout is reassigned in between (same turn of the loop as the entry), the stay that is already under way
gets the NEW period (0 -> the handler runs at once).  The thread-based Timeout reads the value on entry.
The check C17 therefore lets the loop take a turn (advance(0)) before it reassigns a timeout on asyncio machines."""
import asyncio
import os
import sys
sys.path.insert(0, os.environ.get('VERIF_REPO', '/repo'))
from transitions.extensions.asyncio import AsyncMachine, AsyncTimeout   # noqa: E402
from transitions.extensions.states import add_state_features            # noqa: E402


@add_state_features(AsyncTimeout)
class M(AsyncMachine):
    pass


async def main():
    log = []
    loop = asyncio.get_running_loop()
    t0 = loop.time()
    m = M(states=['A', dict(name='B', timeout=0.3, on_timeout=lambda: log.append(round(loop.time() - t0, 1)))],
          initial='A')
    await m.to_B()                       # entered with timeout 0.3 ...
    m.get_state('B').timeout = 0.05      # ... reassigned before the loop took a turn
    await asyncio.sleep(0.5)
    print('handler ran after', log, 's (entered with timeout 0.3, reassigned to 0.05 in the same turn of the loop)')

asyncio.run(main())
