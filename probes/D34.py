# D34 (C10): adding a registered model again to a graph machine raises AttributeError instead of having no effect.
from transitions.extensions import GraphMachine, HierarchicalGraphMachine
class M: pass
for cls in (GraphMachine, HierarchicalGraphMachine):
    m = M()
    g = cls(model=m, states=['A', 'B'], initial='A', transitions=[['go', 'A', 'B']], graph_engine='mermaid')
    m.go()
    g.add_model(m)            # no effect expected
    assert m.state == 'B' and g.models == [m]
print('ok')
