# Regression for the former KF-C15-3 (C15), FIXED in /repo by 9fbcaa5 "fix: per-model queues of an async machine
# survive pickling".  Before the fix AsyncMachine(queued='model') kept _transition_queue_dict keyed by the ORIGINAL
# id(model) after unpickling and every event on the copy raised KeyError.  This probe asserts the FIXED behaviour.
import asyncio
import pickle
from transitions.extensions import (AsyncMachine, AsyncGraphMachine, HierarchicalAsyncMachine,
                                    HierarchicalAsyncGraphMachine)


class Model(object):
    pass


for cls in (AsyncMachine, AsyncGraphMachine, HierarchicalAsyncMachine, HierarchicalAsyncGraphMachine):
    kw = dict(graph_engine='mermaid') if 'Graph' in cls.__name__ else {}
    for queued in (False, True, 'model'):
        m = cls(model=[Model(), Model()], states=['A', 'B', 'C'], initial='A', queued=queued,
                transitions=[['go', 'A', 'B'], ['go', 'B', 'C']], **kw)
        m2 = pickle.loads(pickle.dumps(m))
        assert asyncio.run(m.models[0].go()) is True
        assert asyncio.run(m2.models[0].go()) is True and asyncio.run(m2.models[1].go()) is True
        if queued == 'model':
            assert set(m2._transition_queue_dict) == {id(x) for x in m2.models}
        assert [x.state for x in m2.models] == ['B', 'B'] and [x.state for x in m.models] == ['B', 'A']
        print(cls.__name__, 'queued=%r' % queued, 'copy works')
