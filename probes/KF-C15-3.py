# KF-C15-3 (C15): AsyncMachine(queued='model') keeps one queue per model in _transition_queue_dict keyed by
# id(model); no __getstate__/__setstate__ re-keys it, so after unpickling every event on every model of the
# copy raises KeyError (the key is the id of the ORIGINAL model).  Same for the other three async classes.
import asyncio
import pickle
from transitions.extensions import (AsyncMachine, AsyncGraphMachine, HierarchicalAsyncMachine,
                                    HierarchicalAsyncGraphMachine)


class Model(object):
    pass


for cls in (AsyncMachine, AsyncGraphMachine, HierarchicalAsyncMachine, HierarchicalAsyncGraphMachine):
    kw = dict(graph_engine='mermaid') if 'Graph' in cls.__name__ else {}
    for queued in (True, 'model'):
        m = cls(model=[Model(), Model()], states=['A', 'B'], initial='A', transitions=[['go', 'A', 'B']],
                queued=queued, **kw)
        m2 = pickle.loads(pickle.dumps(m))
        assert asyncio.run(m.models[0].go()) is True
        try:
            res = asyncio.run(m2.models[0].go())
        except KeyError as e:
            assert int(str(e)) == id(m2.models[0]) and id(m.models[0]) in m2._transition_queue_dict
            res = 'KeyError (id of the copy\'s model; the table still has the original\'s id)'
        print(cls.__name__, 'queued=%r' % queued, '->', res)
        assert (res is True) == (queued is True)
