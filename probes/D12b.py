# D12b (C03/C02): a region's transition re-enters a sibling region; the stale tree is then used to dispatch
# into scopes that are no longer active (crash: TypeError/AttributeError from the scope lookup).
from transitions.extensions import HierarchicalMachine as HSM
log = []
states = [{'name': 'P', 'parallel': [
            {'name': 'K1', 'children': ['x'], 'initial': 'x'},
            {'name': 'K2', 'initial': 'b', 'children': [
                'b',
                {'name': 'c', 'initial': 'd', 'children': ['d', 'e'], 'transitions': [['go', 'd', 'e']]}],
             }],
           'transitions': [['go', 'K1_x', 'K2'], ['deep', 'K2_b', 'K2_c']]}]
m = HSM(states=states, initial='P', auto_transitions=False)
m.deep()
print(m.state)          # ['P_K1_x', 'P_K2_c_d']
r = m.go()              # K2's local scope first (d -> e)?  K1's turn re-enters K2 ...
print(r, m.state)
