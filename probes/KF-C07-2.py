# KF-C07-2 (C07): a callback raises and another callback is registered after it in the same list
# (here: before=[b1, b2]).  Machine stops at b1; AsyncMachine has handed the whole list to
# asyncio.gather, which scheduled b2 before b1 ran - b2 still runs (the same exception propagates).
import asyncio
from transitions import Machine
from transitions.extensions.asyncio import AsyncMachine


class Boom(Exception):
    pass


def run(cls):
    log = []

    class Model:
        pass
    m = Model()

    def b1():
        log.append('b1')
        raise Boom()

    def b2():
        log.append('b2')
    mach = cls(m, states=['A'], initial='A', auto_transitions=False)
    mach.add_transition('go', 'A', None, before=[b1, b2])
    try:
        r = m.go()
        if asyncio.iscoroutine(r):
            asyncio.run(r)
    except Boom:
        log.append('Boom')
    return log


s, a = run(Machine), run(AsyncMachine)
print('Machine:', s, '  AsyncMachine:', a)
assert s == ['b1', 'Boom']
assert a == ['b1', 'b2', 'Boom']   # the finding
