# D22 (C16): the flat Mermaid graph does not mark final states (the nested one does).
from transitions.extensions import GraphMachine
m = GraphMachine(states=['A', {'name': 'B', 'final': True}], initial='A', transitions=[['go', 'A', 'B']],
                 graph_engine='mermaid', auto_transitions=False)
src = m.get_graph().draw(None)
print(src)
assert 'B --> [*]' in src
