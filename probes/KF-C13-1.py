"""KF-C13-1 (the fix breaks tests/test_enum.py::TestNestedStateEnums::test_get_nested_transitions, which relies on the stray state): HierarchicalMachine(..., initial=<nested Enum member>) reduced the member to its bare name: the machine
started in a top-level state with the same member name (or created a stray top-level state)."""
from enum import Enum
from transitions.extensions import HierarchicalMachine


class Inner(Enum):
    A = 1
    C = 2


class Outer(Enum):
    A = 1
    B = 2


states = [Outer.A, {'name': Outer.B, 'children': Inner, 'initial': Inner.C}]
m = HierarchicalMachine(states=states, initial=Inner.A, auto_transitions=False)
assert m.state == Inner.A, m.state
assert m.is_B_A(), m.state
ms = HierarchicalMachine(states=['A', {'name': 'B', 'children': ['A', 'C'], 'initial': 'C'}], initial='B_A', auto_transitions=False)
assert ms.state == 'B_A'
assert sorted(m.states) == sorted(ms.states)
m2 = HierarchicalMachine(states=states, initial=Outer.B, auto_transitions=False)
assert m2.state == Inner.C
print('ok')
