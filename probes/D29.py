# D29 (C14): HierarchicalMarkupMachine.on_enter/on_exit(state, callback) do not refresh the markup.
from transitions.extensions.markup import HierarchicalMarkupMachine as HMM
m = HMM(model=None, states=['A', {'name': 'B', 'children': ['x', 'y']}], initial='A', auto_transitions=False)
_ = m.markup
m.on_enter('B_x', 'cb'); m.on_exit('B_y', 'cb2')
ch = m.markup['states'][1]['children']
print(ch)
assert ch[0].get('on_enter') == ['cb'] and ch[1].get('on_exit') == ['cb2']
