from transitions.extensions import HierarchicalMachine
shared = ['cb']
m = HierarchicalMachine(states=['X'], initial='X', auto_transitions=False)
m.add_states(['A', 'B'], on_final=shared) if False else None
# on_final is a per-state keyword: two states created from the same list must not share it
from transitions.extensions.nesting import NestedState
a, b = NestedState('A', on_final=shared, final=True), NestedState('B', on_final=shared, final=True)
a.add_callback('final', 'extra')
assert b.on_final == ['cb'], b.on_final
assert shared == ['cb'], shared
print('ok')
