# D33 (C13): the automatic to_<parent>_<child> events of an embedded machine with nested states survive embedding.
from transitions.extensions import HierarchicalMachine as HM
sub = HM(states=['a', {'name': 'b', 'children': ['x']}], initial='a')   # auto_transitions on
m = HM(states=['idle', {'name': 'work', 'children': sub}], initial='idle', auto_transitions=False)
print(m.get_triggers('work_a'))
assert m.get_triggers('work_a') == [], m.get_triggers('work_a')
