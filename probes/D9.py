# D9 (C03): parallel inside parallel: unknown/invalid event raises ValueError instead of MachineError/AttributeError.
from transitions.extensions import HierarchicalMachine as HSM
from transitions import MachineError
states = [{'name': 'P', 'parallel': [{'name': 'Q', 'parallel': ['y', 'z']}, {'name': 'x'}]}, 'B']
m = HSM(states=states, initial='P', transitions=[['go', 'B', 'P']], auto_transitions=False)
print(m.state)
try:
    m.go()
    raise SystemExit('no exception')
except MachineError:
    print('MachineError ok')
try:
    m.trigger('nope')
    raise SystemExit('no exception')
except AttributeError:
    print('AttributeError ok')
