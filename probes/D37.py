"""D37: HierarchicalMachine.add_model(model, initial=<nested state>) on a machine with Enum states reduced the Enum
value of the initial state to its bare member name before resolving its initial substates: a nested initial state
raised KeyError, or - when a top-level state has the same member name - put the model into that top-level state."""
from enum import Enum
from transitions.extensions import HierarchicalMachine


class Inner(Enum):
    A = 1
    C = 2


class Deep(Enum):
    X = 1
    Y = 2


class Outer(Enum):
    A = 1
    B = 2


class M(object):
    pass


states = [Outer.A, {'name': Outer.B, 'initial': Inner.C,
                    'children': [{'name': Inner.A, 'children': Deep, 'initial': Deep.Y}, Inner.C]}]
m = HierarchicalMachine(states=states, initial=Outer.A, auto_transitions=False)
names = ['A', {'name': 'B', 'initial': 'C', 'children': [{'name': 'A', 'children': ['X', 'Y'], 'initial': 'Y'}, 'C']}]
ms = HierarchicalMachine(states=names, initial='A', auto_transitions=False)
for ini_enum, ini_str, want in [(Outer.B, 'B', 'B_C'), (Inner.C, 'B_C', 'B_C'), (Inner.A, 'B_A', 'B_A_Y'), (Deep.X, 'B_A_X', 'B_A_X')]:
    x = M()
    ms.add_model(x, initial=ini_str)
    assert x.state == want, (ini_str, x.state)
    for ini in (ini_enum, ini_str):
        y = M()
        m.add_model(y, initial=ini)
        got = '_'.join(m._get_enum_path(y.state))
        assert got == want, (ini, y.state, got, want)
print('ok')
