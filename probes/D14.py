# D14 (C13): HSM remove_transition leaves empty residue: the removed event still runs prepare_event and
# raises MachineError (not AttributeError) and get_triggers still lists it.
from transitions.extensions import HierarchicalMachine as HSM
log = []
m = HSM(states=['A', 'B'], initial='A', auto_transitions=False, prepare_event=lambda: log.append('prep'),
        transitions=[['go', 'A', 'B'], ['other', 'A', 'B']])
m.remove_transition('go')
print(m.get_triggers('A'))
try:
    m.trigger('go')
    raise SystemExit('no exception')
except AttributeError:
    pass
assert log == [] and m.get_triggers('A') == ['other'], (log, m.get_triggers('A'))
print('ok')
