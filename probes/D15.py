# D15 (C03/C02): locally declared transition to a descendant of an active state exits and re-enters that state.
from transitions.extensions import HierarchicalMachine as HSM
log = []
states = [{'name': 'P', 'initial': 'b',
           'children': [{'name': 'b', 'initial': 'c', 'children': ['c', 'd'],
                         'on_exit': lambda: log.append('exit b'), 'on_enter': lambda: log.append('enter b')}],
           'transitions': [['go', 'b_c', 'b_d']]}]
m = HSM(states=states, initial='P', auto_transitions=False)
log.clear()
m.go()
print(m.state, log)
assert m.state == 'P_b_d' and log == [], (m.state, log)
