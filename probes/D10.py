# D10 (C03): a later blocked region overwrites an earlier success: trigger returns False although a transition ran.
from transitions.extensions import HierarchicalMachine as HSM
states = [{'name': 'P', 'parallel': [
            {'name': 'R1', 'children': ['a', 'a2'], 'initial': 'a'},
            {'name': 'R2', 'children': ['b', 'b2'], 'initial': 'b'}]}]
m = HSM(states=states, initial='P', auto_transitions=False, transitions=[
    dict(trigger='go', source='P_R1_a', dest='P_R1_a2'),
    dict(trigger='go', source='P_R2_b', dest='P_R2_b2', conditions=lambda: False)])
r = m.go()
print(r, m.state)
assert r is True, r
