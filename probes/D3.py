# D3 (C10): adding a registered model twice to a LockedMachine duplicates its lock contexts -> deadlock.
import threading
from transitions.extensions import LockedMachine
class M: pass
a = M()
m = LockedMachine(model=a, states=['A', 'B'], initial='A', transitions=[['go', 'A', 'B']])
m.add_model(a)
n = len(m.model_context_map[id(a)])
print('contexts', n)
assert n == 2, n
