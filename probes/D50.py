from transitions.extensions import HierarchicalMachine as HM
m = HM(states=[{'name': 'a', 'children': ['x', 'y'], 'initial': 'x'}, 'b'], initial='a', auto_transitions=False)
m.add_transition('go', m.get_state('a_x'), m.get_state('a_y'))
m.add_transition('out', [m.get_state('a_y')], m.get_state('b'))
m.add_transition('back', m.get_state('b'), 'a')
assert m.state == 'a_x'
assert [(t.source, t.dest) for t in m.get_transitions('go')] == [('a_x', 'a_y')], [(t.source, t.dest) for t in m.get_transitions('go')]
assert m.go() and m.state == 'a_y'
assert m.out() and m.state == 'b'
assert m.back() and m.state == 'a_x'
assert len(m.get_transitions('go', source=m.get_state('a_x'))) == 1
# an unregistered state object is still refused
from transitions.extensions.nesting import NestedState
try:
    m.add_transition('no', NestedState('zz'), 'b')
    raise SystemExit('unregistered state object accepted')
except ValueError:
    pass
print('ok')
