from transitions import Machine
from transitions.extensions import LockedMachine
def run(base):
    log = []
    class M(base):
        def on_enter_B(self):
            log.append('enter B')
        def on_exit_B(self):
            log.append('exit B')
    m = M(states=['A', {'name': 'B', 'on_enter': 'on_enter_B'}], initial='A')
    m.to_B(); m.to_A()
    return log
assert run(Machine) == ['enter B', 'exit B']
assert run(LockedMachine) == ['enter B', 'exit B'], run(LockedMachine)
print('ok')
