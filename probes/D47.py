import json, enum
from transitions.extensions.markup import HierarchicalMarkupMachine as HMM
class Reg(enum.Enum):
    H = 1
    L = 2
class Svc(enum.Enum):
    BOOST = 1
    IDLE = 2
class Top(enum.Enum):
    ON = Reg
    SERVICE = Svc
    OFF = 3
class Mod(object):
    pass
def build():
    return HMM(model=None, states=[{'name': Top.ON, 'parallel': [Reg.H, Reg.L]}, {'name': Top.SERVICE, 'children': Svc, 'initial': Svc.BOOST}, Top.OFF], initial=Top.OFF, auto_transitions=False)
m = build()
a, b, c = Mod(), Mod(), Mod()
m.add_model(a, initial=Top.SERVICE); m.add_model(b, initial=Top.ON); m.add_model(c)
print(a.state, b.state, c.state)
mk = m.markup
print(mk['models'])
s = json.dumps(mk['models'])
want = ['SERVICE_BOOST', ['ON_H', 'ON_L'], 'OFF']
assert [d['state'] for d in mk['models']] == want, [d['state'] for d in mk['models']]
m2 = build()
for d, old in zip(json.loads(s), (a, b, c)):
    x = Mod(); m2.add_model(x, initial=d['state'])
    assert x.state == old.state, (x.state, old.state)
print('ok')
