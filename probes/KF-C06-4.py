# KF-C06-4 (C06, candidate): LockedEvent.trigger evaluates self.machine.model_context_map[id(model)] BEFORE it
# enters the first machine context ("with nested(*...)": the argument list is built first).  If the thread then
# has to wait for the machine lock while another thread completes remove_model(m) + add_model(m, model_context=NEW),
# the event on m is processed under the OLD model contexts; the contexts configured for m during the processing
# (NEW) are never entered.  Deterministic: the machine context lets thread B run exactly when thread A (the main
# thread) is about to acquire it for the event.
import os, sys, threading
sys.path.insert(0, os.path.dirname(os.path.abspath(__file__)))
from _c06_ctx import Ctx, Model
from transitions.extensions import LockedMachine

log = []
gate_b, b_done = threading.Event(), threading.Event()


class MachineLock:
    def __init__(self):
        self.lock = threading.Lock()
        self.armed = False

    def __enter__(self):
        if self.armed and threading.current_thread() is threading.main_thread():
            self.armed = False
            gate_b.set()             # A has read its context list and now "waits for the machine lock":
            b_done.wait(10)          # B re-registers the model meanwhile
        self.lock.acquire()
        log.append('enter machine')

    def __exit__(self, *exc):
        log.append('exit machine')
        self.lock.release()


ml = MachineLock()
mo = Model()
old, new = Ctx('OLD model context', log), Ctx('NEW model context', log)
m = LockedMachine(model=None, states=['A', 'B'], initial='A', auto_transitions=False, machine_context=[ml])
m.add_model(mo, model_context=[old])
m.add_transition('go', 'A', 'B', before=lambda: log.append('callback of go'))


def thread_b():
    gate_b.wait(10)
    m.remove_model(mo)
    m.add_model(mo, model_context=[new])
    b_done.set()


tb = threading.Thread(target=thread_b)
tb.start()
del log[:]
ml.armed = True
mo.go()                              # thread A
tb.join()
tail = log[log.index('callback of go') - 2:]
print(tail)
assert [type(x).__name__ if not isinstance(x, Ctx) else x.name for x in m.model_context_map[id(mo)]][-1] == 'NEW model context'
assert tail == ['enter machine', 'enter OLD model context', 'callback of go', 'exit OLD model context', 'exit machine']
assert 'enter NEW model context' not in log      # the finding
