"""D44: HierarchicalMachine._trigger_event evaluated _check_event_result AFTER leaving the root-scope context: an event
triggered by a callback of a running nested transition (a nested scope is active then) that no active state declares
was judged in that scope: has_trigger() did not find the event and AttributeError('Do not know event') was raised
instead of MachineError (and the state's ignore_invalid_triggers was looked up in the wrong scope)."""
from transitions import MachineError
from transitions.extensions import HierarchicalMachine


class M(object):
    pass


m = M()
seen = []


def kick():
    try:
        m.other()          # declared for state B only, A_2 is active: invalid trigger -> MachineError
    except Exception as ex:  # noqa
        seen.append(type(ex).__name__)


h = HierarchicalMachine(m, states=[{'name': 'A', 'children': ['1', {'name': '2', 'on_enter': [kick]}], 'initial': '1',
                                    'transitions': [['go', '1', '2']]}, 'B'],
                        initial='A', auto_transitions=False, transitions=[['other', 'B', 'A']])
try:
    m.other()
except MachineError:
    pass
assert m.go() is True and m.state == 'A_2'
assert seen == ['MachineError'], seen
print('ok')
