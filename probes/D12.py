# D12 (C03/C02): stale tree: after region R1's transition left the parallel state, R2's transition still fires.
from transitions.extensions import HierarchicalMachine as HSM
log = []
states = [{'name': 'P', 'parallel': [
            {'name': 'R1', 'children': ['a'], 'initial': 'a'},
            {'name': 'R2', 'children': [{'name': 'b', 'on_exit': lambda: log.append('exit b')}, 'b2'], 'initial': 'b'}]},
          'OUT']
m = HSM(states=states, initial='P', auto_transitions=False, transitions=[
    dict(trigger='go', source='P_R1_a', dest='OUT'),
    dict(trigger='go', source='P_R2_b', dest='P_R2_b2')])
m.go()
print(m.state, log)
assert m.state == 'OUT' and log == ['exit b'], (m.state, log)
