"""D38: HierarchicalMachine.add_model with a LIST: after the base add_model the state of the first listed model was
resolved and written to EVERY listed model - a registered model listed again was thrown back (adding it twice had an
effect) and a new model listed after a registered one got that model's state instead of its initial state."""
from transitions.extensions import HierarchicalMachine


class M(object):
    pass


m = M()
h = HierarchicalMachine(model=m, states=['A', 'B', {'name': 'C', 'children': ['1', '2'], 'initial': '2'}], initial='A',
                        auto_transitions=False)
h.set_state('B', m)
new = M()
h.add_model([new, m])
assert (new.state, m.state) == ('A', 'B'), (new.state, m.state)
new2 = M()
h.add_model([m, new2], initial='C')
assert (new2.state, m.state) == ('C_2', 'B'), (new2.state, m.state)
print('ok')
