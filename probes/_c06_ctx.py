class Ctx:
    """a logging context manager for the C06 probes"""
    def __init__(self, name, log):
        self.name, self.log = name, log

    def __enter__(self):
        self.log.append('enter ' + self.name)

    def __exit__(self, *exc):
        self.log.append('exit ' + self.name)


class Model:
    pass
