# KF-C19-1 (C19): with @add_state_features(Retry, Volatile) an exhausted retry returns from
# Retry.enter before Volatile.enter: the model is in the state without its volatile object.
from transitions import Machine
from transitions.extensions.states import add_state_features, Retry, Volatile

@add_state_features(Retry, Volatile)
class M(Machine):
    pass

class Model:
    pass

mo = Model()
m = M(mo, states=[dict(name='A', retries=1, on_failure=lambda: None, hook='h'), 'B'], initial='B',
      auto_transitions=False, transitions=[['go', 'B', 'A'], ['go', 'A', 'A']])
mo.go(); mo.go()
assert mo.state == 'A' and hasattr(mo, 'h')
mo.go()                                   # second self re-entry: retries exhausted
print(mo.state, hasattr(mo, 'h'))
assert mo.state == 'A' and not hasattr(mo, 'h')   # in volatile state A without the object (the finding)
