# KF-C09-1 (C09): on an UNQUEUED machine a `before` callback re-entrantly triggers an event that moves the
# same model A -> B while the outer transition A -> C has not yet changed the state.  Machine (and
# LockedMachine, GraphMachine) then run the exit callbacks of the transition's declared SOURCE (A, a second
# time); the hierarchical classes run the exit callbacks of the state that is ACTIVE now (B).  Same final
# state and result, different callback sequence: the nested classes do not behave like Machine here.
# (With queued=True the nested trigger is deferred and all twelve classes agree.)
from transitions import Machine
from transitions.extensions import HierarchicalMachine, LockedMachine, GraphMachine


def run(cls, **kw):
    log = []

    class M:
        pass
    m = M()

    def before_go():
        log.append('before_go')
        m.side()
    states = [dict(name=n, on_exit=[(lambda n=n: log.append('exit_' + n))],
                   on_enter=[(lambda n=n: log.append('enter_' + n))]) for n in 'ABC']
    mach = cls(model=m, states=states, initial='A', auto_transitions=False, **kw)
    mach.add_transition('go', 'A', 'C', before=before_go)
    mach.add_transition('side', 'A', 'B')
    r = m.go()
    return log, r, m.state


base = run(Machine)
print('Machine            ', base)
assert base == (['before_go', 'exit_A', 'enter_B', 'exit_A', 'enter_C'], True, 'C')
assert run(LockedMachine) == base and run(GraphMachine, graph_engine='mermaid') == base
h = run(HierarchicalMachine)
print('HierarchicalMachine', h)
assert h == (['before_go', 'exit_A', 'enter_B', 'exit_B', 'enter_C'], True, 'C')      # the finding
