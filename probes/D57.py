import time
from transitions import Machine
from transitions.extensions.states import add_state_features, Timeout
from transitions.extensions.asyncio import AsyncMachine, AsyncTimeout
@add_state_features(Timeout)
class TM(Machine):
    pass
@add_state_features(AsyncTimeout)
class AM(AsyncMachine):
    pass
notes = []
class Mo(object):
    def note(self):
        notes.append('note')
# a handler given as a bare string on a state without timeout is kept as a list (as the asyncio class does)
mo = Mo()
m = TM(mo, states=['A', {'name': 'B', 'timeout': 0, 'on_timeout': 'note'}], initial='A')
b = m.get_state('B')
assert b.on_timeout == ['note'], b.on_timeout
b.add_callback('timeout', 'note')
b.timeout = 0.05
mo.to_B(); time.sleep(0.3)
assert notes == ['note', 'note'], notes
# states created by one call have lists of their own
for cls in (TM, AM):
    shared = ['to_A']
    k = cls(Mo(), states=['A'], initial='A')
    k.add_states(['B', 'C'], timeout=0.1, on_timeout=shared)
    k.on_timeout_B('extra')
    assert k.get_state('C').on_timeout == ['to_A'], (cls.__name__, k.get_state('C').on_timeout)
    assert shared == ['to_A']
print('ok')
