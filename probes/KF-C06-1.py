# KF-C06-1 (C06): LockedHierarchicalMachine (event_cls = NestedEvent) never enters the contexts configured
# for a model with add_model(model_context=...): an event is processed under machine_context only.
# LockedMachine enters them (machine contexts, then the model's) - shown for comparison.
from transitions.extensions import LockedMachine, LockedHierarchicalMachine


class Ctx:
    def __init__(self, name, log):
        self.name, self.log = name, log

    def __enter__(self):
        self.log.append('enter ' + self.name)

    def __exit__(self, *exc):
        self.log.append('exit ' + self.name)


class Model:
    pass


def run(cls):
    log = []
    mo = Model()
    m = cls(model=None, states=['A', 'B'], initial='A', auto_transitions=False,
            machine_context=[Ctx('machine', log)], before_state_change=[lambda: log.append('callback')])
    m.add_model(mo, model_context=[Ctx('model', log)])
    m.add_transition('go', 'A', 'B')
    del log[:]
    mo.go()
    return log


flat = run(LockedMachine)
hier = run(LockedHierarchicalMachine)
print('LockedMachine            ', flat)
print('LockedHierarchicalMachine', hier)
assert flat == ['enter machine', 'enter model', 'callback', 'exit model', 'exit machine']
assert hier == ['enter machine', 'callback', 'exit machine']      # the finding: 'model' is never entered
