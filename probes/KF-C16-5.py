# KF-C16-5 (C16, reported, undecided): an executed INTERNAL transition (dest=None) does not touch the styling:
# Transition.execute calls _change_state only when dest is not None, and the 'previous' / 'active' styling lives in
# TransitionGraphSupport._change_state.  After go (A -> B) and the internal stay on B the diagram still shows A as
# 'previous' (and the edge A -> B as the previous one) although the transition executed last is stay, whose source is B.
# Literal property text: "none other than the last executed transition's source [is styled] as previous".  DESIGN §6 C16
# and the Coq model read it as the last executed STATE-CHANGING transition (d_last), under which this is conforming: the
# previous style keeps meaning "the state the model came from".  Same on every graph machine class.
import re
from transitions.extensions import GraphMachine, HierarchicalGraphMachine
def styles(src): return dict(re.findall(r'^\s*Class (\S+) s_(\S+)\s*$', src, flags=re.M))
for cls in (GraphMachine, HierarchicalGraphMachine):
    class M: pass
    m = M()
    cls(m, states=['A', 'B'], initial='A', auto_transitions=False, graph_engine='mermaid',
        transitions=[['go', 'A', 'B'], {'trigger': 'stay', 'source': 'B', 'dest': None}])
    m.go()
    assert m.stay() is True
    print(cls.__name__, m.state, styles(m.get_graph().draw(None)))   # B {'A': 'previous', 'B': 'active'}
