"""D35: a nested state whose initial child is given as an Enum member makes the markup carry the Enum member itself;
HierarchicalGraphMachine (Mermaid) then fails with TypeError when it draws the initial marker - at construction."""
from enum import Enum
from transitions.extensions import HierarchicalGraphMachine, HierarchicalMachine


class Phase(Enum):
    IDLE = 1
    BUSY = 2


class Top(Enum):
    OFF = 1
    WORK = 2


states = [Top.OFF, {'name': Top.WORK, 'children': Phase, 'initial': Phase.IDLE}]
m0 = HierarchicalMachine(states=states, initial=Top.OFF, auto_transitions=False)
m0.add_transition('go', Top.OFF, Top.WORK)
m0.go()
assert m0.state == Phase.IDLE
m = HierarchicalGraphMachine(states=states, initial=Top.OFF, auto_transitions=False, graph_engine='mermaid')
m.add_transition('go', Top.OFF, Top.WORK)
m.go()
assert m.state == Phase.IDLE
src = m.get_graph().source
assert '[*] --> WORK_IDLE' in src, src
import json
json.dumps(m.markup)
print('ok')
