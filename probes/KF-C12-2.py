# KF-C12-2 (C12): with on_exception handlers registered, an exception raised by a condition of an EARLIER candidate
# aborts the whole trigger (handled, the call returns False and no later candidate is tried) while may_<event>
# routes the exception to the handlers and goes on to the next candidate: may_ answers True, the trigger executes
# nothing.
from transitions import Machine
class M(object):
    def guard(self):
        raise KeyError('x')
    def ok(self):
        return True
    def handler(self, *args):
        pass
m = M()
mach = Machine(m, states=['A', 'B', 'C'], initial='A', on_exception='handler', auto_transitions=False)
mach.add_transition('go', 'A', 'B', conditions='guard')
mach.add_transition('go', 'A', 'C', conditions='ok')
print('may_go():', m.may_go(), '| go():', m.go(), '| state:', m.state)
