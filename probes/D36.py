"""D36: HierarchicalGraphMachine with Enum states and parallel regions: a transition declared inside one region
(scope of that state) raised ValueError 'Could not find path of ...' after the state change, because the diagram
styling resolved the Enum members of the model state relative to the scope of the running transition and so could
not find the active state of the OTHER region."""
from enum import Enum
from transitions.extensions import HierarchicalGraphMachine, HierarchicalMachine


class B(Enum):
    x = 0
    y = 1


class R(Enum):
    left = 0
    right = 1


class T(Enum):
    P = 0


states = [{'name': T.P, 'initial': [R.left, R.right],
           'children': [{'name': R.left, 'children': [{'name': B.x}, {'name': B.y}], 'initial': B.x,
                         'transitions': [['go', 'x', 'y']]},
                        {'name': R.right}]}]
for cls in (HierarchicalMachine, HierarchicalGraphMachine):
    m = cls(states=states, initial=T.P, auto_transitions=False)
    assert m.state == [B.x, R.right], m.state
    assert m.go() is True, cls
    assert m.state == [B.y, R.right], (cls, m.state)
print('ok')
