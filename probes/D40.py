"""D40: HierarchicalMachine.get_triggers(<nested Enum member>) resolved the member by its bare name: it raised for a
nested member or answered for a top-level state with the same member name."""
from enum import Enum
from transitions.extensions import HierarchicalMachine


class Inner(Enum):
    A = 1
    C = 2


class Outer(Enum):
    A = 1
    B = 2


states = [Outer.A, {'name': Outer.B, 'children': Inner, 'initial': Inner.C}]
m = HierarchicalMachine(states=states, initial=Outer.A, auto_transitions=False)
m.add_transition('go', Outer.A, Outer.B)
m.add_transition('up', Inner.A, Inner.C)
m.add_transition('leave', Outer.B, Outer.A)
assert sorted(m.get_triggers('B_A')) == ['leave', 'up']
assert sorted(m.get_triggers(Inner.A)) == ['leave', 'up'], m.get_triggers(Inner.A)
assert sorted(m.get_triggers(Outer.A)) == ['go']
assert sorted(m.get_triggers(Inner.C, Outer.A)) == ['go', 'leave']
print('ok')
