from transitions.extensions import HierarchicalMachine as HSM
log = []
states = [{'name': 'P', 'initial': 'x', 'children': [
    {'name': 'x', 'initial': 'a',
     'children': [{'name': 'a', 'on_enter': lambda: log.append('enter a')}, {'name': 'b', 'initial': 'b1', 'children': ['b1', 'b2']}, 'c'],
     'transitions': [['same', '*', '='], ['deep', 'a', 'b']]}, 'y']}, 'Q']
m = HSM(states=states, initial='P', auto_transitions=False)
assert m.state == 'P_x_a'
assert m.same() is True and m.state == 'P_x_a' and log == ['enter a'], (m.state, log)   # reflexive: exit and re-enter
m.deep()
assert m.state == 'P_x_b_b1'
assert m.same() is True and m.state == 'P_x_b_b1'
# the same shorthand at root scope
m2 = HSM(states=['A', {'name': 'B', 'children': ['1', '2'], 'initial': '1'}], initial='B', auto_transitions=False, transitions=[['same', '*', '=']])
assert m2.same() and m2.state == 'B_1'
print('ok')
