# C07 (outside the envelope of the check, recorded for the report): with queued=False a callback that awaits a
# trigger and has a later sibling in its list: Machine runs the nested event inside b1, then b2; AsyncMachine
# (gather) starts b2 BEFORE the nested event is processed, so b2 sees the state before the nested event
# (as soon as the nested event has one callback, i.e. one real suspension point).
import asyncio
from transitions import Machine
from transitions.extensions.asyncio import AsyncMachine


def run(cls):
    log = []

    class Model:
        pass
    m = Model()
    if cls is AsyncMachine:
        async def b1():
            log.append(('b1', m.state))
            await m.inner()
    else:
        def b1():
            log.append(('b1', m.state))
            m.inner()

    def b2():
        log.append(('b2', m.state))
    mach = cls(m, states=['A', 'B'], initial='A', auto_transitions=False)
    mach.add_transition('go', 'A', None, before=[b1, b2])
    mach.add_transition('inner', 'A', 'B', before=[lambda: log.append(('n1', m.state))])
    r = m.go()
    if asyncio.iscoroutine(r):
        asyncio.run(r)
    return log


s, a = run(Machine), run(AsyncMachine)
print('Machine:', s, '  AsyncMachine:', a)
assert s == [('b1', 'A'), ('n1', 'A'), ('b2', 'B')]
assert a == [('b1', 'A'), ('b2', 'A'), ('n1', 'A')]
