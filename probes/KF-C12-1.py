# KF-C12-1 (C12): a candidate with an unregistered destination whose checks pass precedes a valid one:
# may_go() answers True, go() raises ValueError.
from transitions import Machine
m = Machine(states=['A'], initial='A', auto_transitions=False,
            transitions=[['go', 'A', 'NOWHERE'], ['go', 'A', 'A']])
print(m.may_go())
try:
    m.go(); print('executed')
except ValueError as e:
    print('ValueError', e)
