# KF-C15-1 (C15): LockedGraphMachine(GraphMachine, LockedMachine) and LockedHierarchicalGraphMachine inherit
# GraphMachine.__getstate__/__setstate__, which do not call super(): LockedMachine's re-keying of
# model_context_map never runs.  The unpickled machine keeps the OLD id(model) keys; an event on a model of
# the copy finds no contexts (defaultdict -> []), so it is no longer atomic: only the individual machine
# methods called inside take the lock, and user model_contexts are never entered.
import pickle
import threading
import time
from transitions.extensions import LockedMachine, LockedGraphMachine, LockedHierarchicalGraphMachine


class Model(object):
    def slow(self):
        started.set()
        time.sleep(0.3)


for cls in (LockedGraphMachine, LockedHierarchicalGraphMachine):
    m = cls(model=[Model(), Model()], states=['A', 'B'], initial='A', graph_engine='mermaid')
    m2 = pickle.loads(pickle.dumps(m))
    new_ids = {id(x) for x in m2.models}
    old_ids = {id(x) for x in m.models}
    print(cls.__name__, 'keys are the copy\'s models:', set(m2.model_context_map) == new_ids,
          '| keys are the ORIGINAL\'s models:', set(m2.model_context_map) == old_ids)
    assert set(m2.model_context_map) == old_ids and not (set(m2.model_context_map) & new_ids)
    assert all(m2.model_context_map.get(id(x)) is None for x in m2.models)

ok = LockedMachine(model=[Model()], states=['A', 'B'], initial='A')
ok2 = pickle.loads(pickle.dumps(ok))
assert set(ok2.model_context_map) == {id(x) for x in ok2.models}      # LockedMachine alone re-keys correctly


# behavioural consequence on the flat class: two threads interleave inside ONE event of the copy
def race(machine):
    """thread 1 runs go (A->B) with a slow 'before' callback; thread 2 triggers go on the same model meanwhile.
    Atomic events: the second go sees B -> C.  Not atomic: the second go also runs A -> B."""
    global started
    started = threading.Event()
    model = machine.models[0]
    t1 = threading.Thread(target=model.go)
    t1.start()
    started.wait(2)
    model.go()
    t1.join()
    return model.state


def build():
    return LockedGraphMachine(model=[Model()], states=['A', 'B', 'C'], initial='A', graph_engine='mermaid',
                              transitions=[dict(trigger='go', source='A', dest='B', before='slow'),
                                           dict(trigger='go', source='B', dest='C')])


orig_state = race(build())
copy_state = race(pickle.loads(pickle.dumps(build())))
print('two concurrent go() on the original ->', orig_state, '; on the unpickled copy ->', copy_state)
assert orig_state == 'C' and copy_state == 'B'
