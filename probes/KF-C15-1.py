# Regression for the former KF-C15-1 (C15), FIXED in /repo by 74ef53e "fix: locked graph machines keep their
# model contexts across pickling".
# Before the fix LockedGraphMachine(GraphMachine, LockedMachine) and LockedHierarchicalGraphMachine inherited
# GraphMachine.__getstate__/__setstate__ (which do not call super()): LockedMachine's re-keying of
# model_context_map never ran, the unpickled machine kept the OLD id(model) keys, an event on a model of the
# copy found no contexts and was no longer atomic.  This probe asserts the FIXED behaviour.
import pickle
import threading
import time
from transitions.extensions import LockedMachine, LockedGraphMachine, LockedHierarchicalGraphMachine


class Model(object):
    def slow(self):
        started.set()
        time.sleep(0.3)


for cls in (LockedMachine, LockedGraphMachine, LockedHierarchicalGraphMachine):
    kw = dict(graph_engine='mermaid') if 'Graph' in cls.__name__ else {}
    m = cls(model=[Model(), Model()], states=['A', 'B'], initial='A', **kw)
    m2 = pickle.loads(pickle.dumps(m))
    new_ids = {id(x) for x in m2.models}
    old_ids = {id(x) for x in m.models}
    print(cls.__name__, 'keys are the copy\'s models:', set(m2.model_context_map) == new_ids,
          '| keys are the ORIGINAL\'s models:', set(m2.model_context_map) == old_ids)
    assert set(m2.model_context_map) == new_ids and not (set(m2.model_context_map) & old_ids)
    for x in m2.models:                       # every model finds the copy's machine lock and ident manager
        ctx = m2.model_context_map[id(x)]
        assert len(ctx) == 2 and ctx[0] is m2.machine_context[0] and ctx[1] is m2.machine_context[1]
        assert ctx[0] is not m.machine_context[0]
    if 'Graph' in cls.__name__:
        assert set(m2.model_graphs) == new_ids


# behavioural consequence on the flat class: events on the copy are atomic again
def race(machine):
    """thread 1 runs go (A->B) with a slow 'before' callback; thread 2 triggers go on the same model meanwhile.
    Atomic events: the second go sees B -> C.  Not atomic: the second go also runs A -> B."""
    global started
    started = threading.Event()
    model = machine.models[0]
    t1 = threading.Thread(target=model.go)
    t1.start()
    started.wait(2)
    model.go()
    t1.join()
    return model.state


def build():
    return LockedGraphMachine(model=[Model()], states=['A', 'B', 'C'], initial='A', graph_engine='mermaid',
                              transitions=[dict(trigger='go', source='A', dest='B', before='slow'),
                                           dict(trigger='go', source='B', dest='C')])


orig_state = race(build())
copy_state = race(pickle.loads(pickle.dumps(build())))
print('two concurrent go() on the original ->', orig_state, '; on the unpickled copy ->', copy_state)
assert orig_state == 'C' and copy_state == 'C'
