# D25 (C16): region-of-interest graph raises KeyError('dest') when an internal transition starts in an inactive state.
from transitions.extensions import GraphMachine
class M: pass
m = M()
GraphMachine(m, states=['A', 'B'], initial='A', graph_engine='mermaid', auto_transitions=False,
             transitions=[{'trigger': 'i', 'source': 'B', 'dest': None}, ['go', 'A', 'B']])
print(m.get_graph(show_roi=True).draw(None))
