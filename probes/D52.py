from transitions import Machine, MachineError
defs = [{'name': 'A'}, {'name': 'B'}]
m1 = Machine(states=defs, initial='A', ignore_invalid_triggers=True)
assert defs == [{'name': 'A'}, {'name': 'B'}], defs          # the definitions are left as they were
m2 = Machine(states=defs, initial='A', transitions=[['go', 'B', 'A']], auto_transitions=False)
try:
    m2.go()                                                  # invalid from A on a machine that does not ignore
    raise SystemExit('the second machine inherited ignore_invalid_triggers=True from the first one')
except MachineError:
    pass
print('ok')
