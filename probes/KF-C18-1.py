# KF-C18-1 (C18): a state flagged final that is entered together with a non-final active child never runs
# its own on_final callbacks (clause "the state itself is final and has just been entered").
from transitions.extensions import HierarchicalMachine as HSM
log = []
states = ['A', {'name': 'F', 'final': True, 'on_final': lambda: log.append('F.on_final'), 'initial': 'x', 'children': ['x']}]
m = HSM(states=states, initial='A', auto_transitions=False, transitions=[['go', 'A', 'F']], on_final=lambda: log.append('machine'))
m.go()
print(m.state, log)
