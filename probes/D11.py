# D11 (C03): an event declared inside a parallel state is dispatched once per region: internal transition runs twice.
from transitions.extensions import HierarchicalMachine as HSM
log = []
states = [{'name': 'P', 'parallel': [
            {'name': 'R1', 'children': ['a'], 'initial': 'a'},
            {'name': 'R2', 'children': ['b'], 'initial': 'b'}],
           'transitions': [dict(trigger='tick', source='R1_a', dest=None, after=lambda: log.append('tick'))]}]
m = HSM(states=states, initial='P', auto_transitions=False)
m.tick()
print(log)
assert log == ['tick'], log
