# KF-C15-2 (C15): LockedMachine.__getstate__ builds {model: contexts} keyed by the model OBJECTS, so a locked
# machine with an unhashable model (e.g. a dataclass, which sets __hash__ = None) cannot be pickled, although
# the same model works with the machine otherwise and pickles fine with Machine; the comment above
# __getstate__ claims the store "enable[s] the usage of unhashable objects in locked machine".
import pickle
from dataclasses import dataclass
from transitions import Machine
from transitions.extensions import LockedMachine, LockedHierarchicalMachine


@dataclass
class Model:
    n: int = 0


for cls in (Machine, LockedMachine, LockedHierarchicalMachine):
    m = cls(model=Model(), states=['A', 'B'], initial='A', transitions=[['go', 'A', 'B']])
    assert m.models[0].go() and m.models[0].state == 'B'          # the machine works with this model
    try:
        m2 = pickle.loads(pickle.dumps(m))
        print(cls.__name__, 'pickles; copy state', m2.models[0].state)
        assert cls is Machine
    except TypeError as e:
        print(cls.__name__, 'TypeError:', e)
        assert cls is not Machine
