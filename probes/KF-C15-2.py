# Regression for the former KF-C15-2 (C15), FIXED in /repo by 3c0ca68 "fix: locked machines with unhashable
# models can be pickled".
# Before the fix LockedMachine.__getstate__ built {model: contexts} keyed by the model OBJECTS, so a locked
# machine with an unhashable model (e.g. a dataclass, which sets __hash__ = None) raised TypeError on
# pickle.dumps.  The store is a list of (model, contexts) pairs now.  This probe asserts the FIXED behaviour.
import pickle
from dataclasses import dataclass
from transitions import Machine
from transitions.extensions import (LockedMachine, LockedHierarchicalMachine, LockedGraphMachine,
                                    LockedHierarchicalGraphMachine)


@dataclass
class Model:
    n: int = 0


for cls in (Machine, LockedMachine, LockedHierarchicalMachine, LockedGraphMachine, LockedHierarchicalGraphMachine):
    kw = dict(graph_engine='mermaid') if 'Graph' in cls.__name__ else {}
    m = cls(model=[Model(1), Model(2)], states=['A', 'B'], initial='A', transitions=[['go', 'A', 'B']], **kw)
    assert m.models[0].go() and m.models[0].state == 'B'
    m2 = pickle.loads(pickle.dumps(m))
    print(cls.__name__, 'pickles; copy states', [x.state for x in m2.models])
    assert [x.state for x in m2.models] == ['B', 'A'] and [x.n for x in m2.models] == [1, 2]
    if cls is not Machine:
        assert set(m2.model_context_map) == {id(x) for x in m2.models}
        assert all(m2.model_context_map[id(x)][0] is m2.machine_context[0] for x in m2.models)
    assert m2.models[1].go() and m2.models[1].state == 'B' and m.models[1].state == 'A'
