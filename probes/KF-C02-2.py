# KF-C02-2 (C02): a parallel state whose 'initial' list names a strict subset of its children: a transition to a
# child that is NOT active runs that child's on_exit callbacks although it was never entered.
from transitions.extensions import HierarchicalMachine as HSM
log = []
states = [{'name': 'P', 'initial': ['A', 'B'],
           'children': ['A', 'B', {'name': 'C', 'on_exit': lambda: log.append('exit C'), 'on_enter': lambda: log.append('enter C')}]}]
m = HSM(states=states, initial='P', auto_transitions=False, transitions=[['go', 'P_A', 'P_C']])
print(m.state)
m.go()
print(m.state, log)
