from transitions import Machine
from transitions.extensions import HierarchicalMachine
for cls in (Machine, HierarchicalMachine):
    log = []
    def b1(): log.append('b1')
    def extra(): log.append('extra')
    def ent(): log.append('enter')
    m = cls(states=['A', 'B', 'C'], initial='A', auto_transitions=False)
    m.add_transition('go', ['A', 'B'], 'C', before=[b1])
    # a callback added to the transition from A must not appear on the transition from B
    m.get_transitions('go', source='A')[0].add_callback('before', extra)
    m.set_state('B'); m.go()
    assert log == ['b1'], (cls.__name__, log)
    # the same for states created by one add_states call
    del log[:]
    m.add_states(['D', 'E'], on_enter=[ent])
    m.get_state('D').add_callback('enter', extra)
    m.add_transition('on', 'C', 'E')
    m.on()
    assert log == ['enter'], (cls.__name__, log)
    # and the caller's own list stays the caller's
    mine = [b1]
    m.add_transition('back', 'E', 'A', before=mine)
    mine.append(extra)
    del log[:]
    m.back()
    assert log == ['b1'], (cls.__name__, log)
print('ok')
