# Regression for the former KF-C15-5 (C15), FIXED in /repo by 538f6a5 (IdentManager.__getstate__ resets the owner).
# Before the fix: IdentManager.current was pickled as it is.  A LockedMachine pickled from INSIDE a
# callback (the machine's contexts are entered, _ident.current == get_ident()) yields a copy whose IdentManager
# still names the pickling thread as the owner of its lock although the copy's PicklableLock is free.  The copy
# therefore enters no lock for events of that thread: while ANOTHER thread holds the copy's lock, an event on the
# copy from the pickling thread runs at once instead of waiting ("held locks on one never affect the other" /
# "reacts exactly like the original" are both violated).  The state heals when another thread has used the copy.
# Suggested fix (full suite passes): IdentManager.__getstate__ returning {'current': 0}.
import pickle
import threading
import time
from threading import get_ident
from transitions.extensions import LockedMachine, LockedHierarchicalMachine, LockedGraphMachine


class Model(object):
    dump = None

    def snap(self):
        self.dump = pickle.dumps(self.machine)


def blocked_while_other_thread_holds_lock(machine):
    """does an event triggered in THIS thread wait while another thread holds the machine's lock?"""
    lock = machine.machine_context[0]
    held, release = threading.Event(), threading.Event()

    def holder():
        with lock:
            held.set()
            release.wait(5)
    t = threading.Thread(target=holder)
    t.start()
    held.wait(2)
    timer = threading.Timer(0.5, release.set)
    timer.start()
    t0 = time.time()
    machine.models[0].go()
    waited = time.time() - t0
    release.set()
    t.join()
    return waited > 0.4


for cls in (LockedMachine, LockedHierarchicalMachine, LockedGraphMachine):
    kw = dict(graph_engine='mermaid') if 'Graph' in cls.__name__ else {}
    mo = Model()
    m = cls(model=mo, states=['A', 'B', 'C', 'D'], initial='A', after_state_change='snap',
            transitions=[['go', 'A', 'B'], ['go', 'B', 'C'], ['go', 'C', 'D']], **kw)
    mo.machine = m
    mo.go()                                           # the after_state_change callback pickles the machine
    c = pickle.loads(mo.dump)
    owner_kept = c._ident.current == get_ident()
    print(cls.__name__, '| copy names the pickling thread as lock owner:', owner_kept,
          '| copy\'s lock locked:', c.machine_context[0].lock.locked(), '| original\'s ident:', m._ident.current)
    assert m._ident.current == 0 and not c.machine_context[0].lock.locked()
    orig_waits = blocked_while_other_thread_holds_lock(m)
    copy_waits = blocked_while_other_thread_holds_lock(c)
    print('    event waits for the lock held by another thread: original', orig_waits, '| copy', copy_waits)
    assert orig_waits
    assert not owner_kept and copy_waits              # FIXED behaviour (before 538f6a5: owner kept, copy did not wait)
