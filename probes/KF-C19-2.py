# KF-C19-2 (C19): with @add_state_features(Error, Volatile) the MachineError of an error state
# is raised before Volatile.enter: the model is left in the state without its volatile object
# (with (Volatile, Error) it holds one).
from transitions import Machine, MachineError
from transitions.extensions.states import add_state_features, Error, Volatile

def run(*order):
    @add_state_features(*order)
    class M(Machine):
        pass

    class Model:
        pass
    mo = Model()
    M(mo, states=['A', 'B'], initial='A', auto_transitions=False, transitions=[['go', 'A', 'B']])
    try:
        mo.go()
        raised = False
    except MachineError:
        raised = True
    return raised, mo.state, hasattr(mo, 'scope')

print(run(Error, Volatile), run(Volatile, Error))
assert run(Volatile, Error) == (True, 'B', True)
assert run(Error, Volatile) == (True, 'B', False)     # the finding
