# KF-C05-1 (C05): on a hierarchical machine with queued=True the generic helper model.to(<state>) (to_state) called
# from a callback is executed at once, inside the callback - it does not go through the queue like to_<state>().
from transitions.extensions import HierarchicalMachine
seen = []
m = HierarchicalMachine(states=['A', 'B', 'C'], initial='A', queued=True)
m.on_enter_B(lambda: (m.to('C'), seen.append(('inside on_enter_B after to(C)', m.state))))
m.to_B()
print(seen, '| final:', m.state)
seen2 = []
k = HierarchicalMachine(states=['A', 'B', 'C'], initial='A', queued=True)
k.on_enter_B(lambda: (k.to_C(), seen2.append(('inside on_enter_B after to_C()', k.state))))
k.to_B()
print(seen2, '| final:', k.state)
