from transitions import Machine
from transitions.extensions.states import add_state_features, Error, Tags
@add_state_features(Error)
class EM(Machine):
    pass
common = ['t']
m = EM(states=[{'name': 'A', 'tags': common, 'accepted': True}, {'name': 'B', 'tags': common}, 'C'], initial='C')
assert common == ['t'], common                         # the caller's list is not touched
assert m.get_state('A').is_accepted and m.get_state('A').is_t
assert not m.get_state('B').is_accepted and m.get_state('B').is_t
m.to_A()                                               # accepted dead end: fine
try:
    m.to_B()                                           # not accepted, no way out (auto transitions exist -> no error)
except Exception:
    pass
@add_state_features(Tags)
class TM(Machine):
    pass
t = TM(states=[{'name': 'A', 'tags': common}, {'name': 'B', 'tags': common}], initial='A')
t.get_state('A').tags.append('only_a')
assert not t.get_state('B').is_only_a
print('ok')
# a single tag given as a plain string stays one tag (follow-up of D51)
s = TM(states=[{'name': 'A', 'tags': 'busy'}, 'B'], initial='A')
assert s.get_state('A').is_busy and s.get_state('A').tags == ['busy'], s.get_state('A').tags
e = EM(states=[{'name': 'A', 'tags': 'busy', 'accepted': True}, 'B'], initial='B')
assert e.get_state('A').is_busy and e.get_state('A').is_accepted
print('ok')
