# C06, observations outside the envelope of the check (reported, not classified as known findings):
# (a) a nested event on ANOTHER model, triggered from a callback by the thread that is inside, takes the
#     re-entrant path: that model's contexts are not entered (LockedMachine);
# (b) after remove_model(m) an event sent to m finds an empty context list (defaultdict) and
#     LockedEvent.trigger itself enters nothing: the machine contexts are then entered and left piecewise by
#     the inner public-method calls (get_model_state, callbacks, set_state ...), not once around the event;
# (c) LockedGraphMachine.add_model does not accept model_context (GraphMachine.add_model comes first in the MRO).
from transitions.extensions import LockedMachine, LockedGraphMachine


class Ctx:
    def __init__(self, name, log):
        self.name, self.log = name, log

    def __enter__(self):
        self.log.append('enter ' + self.name)

    def __exit__(self, *exc):
        self.log.append('exit ' + self.name)


class Model:
    pass


log = []
m1, m2 = Model(), Model()


def before_go():
    log.append('callback of go')
    m2.other()                      # nested event on another model


m = LockedMachine(model=None, states=['A', 'B'], initial='A', auto_transitions=False,
                  machine_context=[Ctx('machine', log)])
m.add_model(m1, model_context=[Ctx('model1', log)])
m.add_model(m2, model_context=[Ctx('model2', log)])
m.add_transition('go', 'A', 'B', before=before_go)
m.add_transition('other', 'A', 'B', before=lambda: log.append('callback of other'))
del log[:]
m1.go()
print('(a)', log)
assert 'callback of other' in log and 'enter model2' not in log and m2.state == 'B'

m.add_transition('back', 'B', 'A', before=lambda: log.append('callback of back'))
m.remove_model(m2)
del log[:]
m2.back()
print('(b)', log)
assert log[0] == 'enter machine' and log.count('enter machine') > 1 and 'enter model2' not in log

try:
    g = LockedGraphMachine(model=None, states=['A'], initial='A', graph_engine='mermaid')
    g.add_model(Model(), model_context=[Ctx('x', [])])
    print('(c) accepted')
except TypeError as e:
    print('(c) TypeError:', e)
