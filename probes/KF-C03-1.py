# KF-C03-1 (C03): the same event declared in two scopes: an ancestor's transition declared inside a state
# definition wins over its descendant's globally declared transition (dispatch is scope-major, not state-major).
from transitions.extensions import HierarchicalMachine as HSM
log = []
states = [{'name': 'P', 'initial': 'c', 'children': [{'name': 'c', 'initial': 'd', 'children': ['d']}],
           'transitions': [dict(trigger='go', source='c', dest=None, before=lambda: log.append('ancestor c (local)'))]}]
m = HSM(states=states, initial='P', auto_transitions=False)
m.add_transition('go', 'P_c_d', None, before=lambda: log.append('descendant d (global)'))
m.go()
print(m.state, log)
