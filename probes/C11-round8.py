import sys, os
sys.path.insert(0, os.environ.get('VERIF_REPO', '/repo'))
from transitions.extensions import HierarchicalMachine as HM
def pr(ts): return [(t.source, t.dest) for t in ts]
m = HM(states=[{'name':'A','children':['x','y'],'transitions':[['loop','x','x']]},
               {'name':'B','children':['x','y'],'transitions':[['hop','y','x']]}], initial='A_x', auto_transitions=False)
print('(i) src A_x dst B_x:', pr(m.get_transitions('', 'A_x', 'B_x')))
print('(i) dest=B_x:', pr(m.get_transitions(dest='B_x')), ' dest=A_x:', pr(m.get_transitions(dest='A_x')))
print('(i) source=B_x:', pr(m.get_transitions(source='B_x')), ' source=A_x:', pr(m.get_transitions(source='A_x')))
m2 = HM(states=[{'name':'A','children':['x','y'],'transitions':[['go','x','y']]}, 'B'], initial='A_x', transitions=[['up','A_x','B']])
print('(ii) by name:', m2.get_triggers('A_x')[:3], '... len', len(m2.get_triggers('A_x')), ' by State object:', m2.get_triggers(m2.get_state('A_x')), ' top-level object:', len(m2.get_triggers(m2.get_state('A'))))
class Mod: pass
extra = Mod()
m3 = HM(states=[{'name':'A','children':['x','y'],'transitions':[{'trigger':'go','source':'x','dest':'y','after':lambda: m3.add_model(extra)}]}, 'B'], initial='A_x', auto_transitions=False)
try:
    m3.go(); print('(iii) ok', m3.state, getattr(extra,'state',None), hasattr(extra,'is_A_x'), hasattr(extra,'go'))
except Exception as e:
    print('(iii)', type(e).__name__, e, '| state', m3.state)
