# D5 (C12): HierarchicalAsyncMachine.may_<event> only inspects the first region of a parallel state.
import asyncio
from transitions.extensions.asyncio import HierarchicalAsyncMachine as HAM
states = [{'name': 'P', 'parallel': [
            {'name': 'R1', 'children': ['a'], 'initial': 'a'},
            {'name': 'R2', 'children': ['b', 'b2'], 'initial': 'b'}]}]
m = HAM(states=states, initial='P', auto_transitions=False, transitions=[['go', 'P_R1_a', 'P_R1_a'], ['hop', 'P_R2_b', 'P_R2_b2']])
async def main():
    r1 = await m.may_go(); r2 = await m.may_hop()
    print(r1, r2)
    assert r1 and r2, (r1, r2)
asyncio.run(main())
