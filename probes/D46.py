"""D46: HierarchicalMachine.remove_transition(trigger, source=p) (or dest=p) descended into EVERY child scope with the
filter unchanged and matched it against that scope's relative names: transitions of other states whose relative
name happened to equal the filter were removed too."""
from transitions.extensions import HierarchicalMachine as HM

m = HM(states=[{'name': 'a', 'children': ['x', 'a'], 'transitions': [['go', 'a', 'x'], ['go', 'x', 'a']]},
               {'name': 'b', 'children': ['a', 'x'], 'transitions': [['go', 'a', 'x']]}],
       initial='a', auto_transitions=False, model=None)
m.add_transition('go', 'a', 'b')
m.add_transition('go', 'b_a', 'a')


def listing():
    return sorted((t.source, t.dest) for t in m.get_transitions('go'))


before = listing()
m.remove_transition('go', source='a')
after = listing()
assert ('a', 'b') in before and ('a', 'b') not in after
# the transition declared inside b from b's child a (absolute source b_a) is not from 'a'
with m('b'):
    inner = [(t.source, t.dest) for t in m.events['go'].transitions.get('a', [])] if 'go' in m.events else []
assert inner == [('a', 'x')], inner
m2 = HM(states=['s1', {'name': 's2', 'children': ['s1', 's3'], 'transitions': [['e0', 's1', 's3']]}], initial='s1',
        auto_transitions=False, model=None)
m2.remove_transition('e0', source='s1')
with m2('s2'):
    assert 'e0' in m2.events and len(m2.events['e0'].transitions['s1']) == 1
m2.remove_transition('e0', source='s2_s1')
with m2('s2'):
    assert 'e0' not in m2.events
print('ok')
