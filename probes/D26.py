# D26 (C16/C14): adding a compound state to a hierarchical graph machine with a model attached leaves a stale
# 'children' entry in the root markup: the diagram declares non-existent top-level states.
from transitions.extensions import HierarchicalGraphMachine
class M: pass
m = M()
h = HierarchicalGraphMachine(m, states=['P', 'H'], initial='H', graph_engine='mermaid', auto_transitions=False)
h.add_states({'name': 'T', 'children': ['K', 'idle'], 'initial': 'idle'})
src = m.get_graph().draw(None)
print(src)
print(sorted(h.markup.keys()))
assert 'children' not in h.markup and 'as K\n' not in src.replace('T_K', ''), 'stale children'
