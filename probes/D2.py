# D2 (C10): dispatch stops at the first model whose trigger returns False.
from transitions import Machine
class M: pass
a, b = M(), M()
m = Machine(model=[a, b], states=['A', 'B'], initial='A',
            transitions=[dict(trigger='go', source='A', dest='B', conditions=lambda: allow.pop(0))])
allow = [False, True]
r = m.dispatch('go')
print(r, a.state, b.state)
assert r is False and b.state == 'B', (r, a.state, b.state)  # b never triggered on the defective tree
