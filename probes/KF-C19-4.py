# KF-C19-4 (C19): with @add_state_features(Error, Retry) an entry that raises MachineError in Error.enter
# never reaches Retry.enter, so the per-model retry counter is not reset; if the state then receives an
# outgoing self transition (add_transition), its first re-entry after that entry from ANOTHER state already
# runs on_failure.  With (Retry, Error) the counter is reset before the raise.
from transitions import Machine, MachineError
from transitions.extensions.states import add_state_features, Error, Retry


def run(*order):
    log = []

    @add_state_features(*order)
    class M(Machine):
        pass
    m = M(states=['A', dict(name='D', retries=1, on_failure=lambda: log.append('fail'))], initial='A',
          auto_transitions=False, transitions=[['go', 'A', 'D'], ['again', 'D', 'D'], ['back', 'D', 'A']])
    m.go(); m.again(); m.again()
    assert log == ['fail']
    m.back()
    m.remove_transition('again', source='D'); m.remove_transition('back', source='D')
    try:
        m.go()
        raise AssertionError('dead end did not raise')
    except MachineError:
        pass
    m.add_transition('again', 'D', 'D')
    del log[:]
    m.again()            # first self re-entry after entering D from A
    return log


print(run(Retry, Error), run(Error, Retry))
assert run(Retry, Error) == []
assert run(Error, Retry) == ['fail']      # the finding: counted from the stale counter
