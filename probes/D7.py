# D7 (C14): an internal transition is exported without 'dest' and cannot be re-imported.
import json
from transitions.extensions.markup import MarkupMachine
m = MarkupMachine(states=['A', 'B'], initial='A', auto_transitions=False,
                  transitions=[dict(trigger='tick', source='A', dest=None, after='note')])
mk = json.loads(json.dumps(m.markup))
print(mk['transitions'])
m2 = MarkupMachine(markup=mk)
assert m2.markup['transitions'] == mk['transitions']
