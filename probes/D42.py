# D42 (C16, fixed): AsyncGraphMachine / HierarchicalAsyncGraphMachine never style the model's
# current state 'active' after a transition.  AsyncTransition._change_state and NestedAsyncTransition._change_state
# (transitions/extensions/asyncio.py) carry their own copy of the graph code: reset_styling + set_previous_transition,
# but no graph.set_node_style(model.state, "active") after the state change (TransitionGraphSupport._change_state,
# which has it, is not in their MRO path for _change_state).  Property: "every such state the backend is able to
# style ... carries that style".  Expected {'A': 'previous', 'B': 'active'}; found B 'default'.
import asyncio, re
from transitions.extensions import AsyncGraphMachine, HierarchicalAsyncGraphMachine
def styles(src): return dict(re.findall(r'^\s*Class (\S+) s_(\S+)\s*$', src, flags=re.M))
for cls in (AsyncGraphMachine, HierarchicalAsyncGraphMachine):
    class M: pass
    m = M()
    cls(m, states=['A', 'B', 'C'], initial='A', transitions=[['go', 'A', 'B']], auto_transitions=False,
        graph_engine='mermaid')
    asyncio.run(m.go())
    print(cls.__name__, m.state, styles(m.get_graph().draw(None)))
