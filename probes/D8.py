# D8 (C18): loop variable shadows is_final - last child decides whether a compound counts as final.
from transitions.extensions import HierarchicalMachine as HSM
log = []
states = [{'name': 'P', 'parallel': [
            {'name': 'R1', 'children': [{'name': 'a'}, {'name': 'af', 'final': True}], 'initial': 'a'},
            {'name': 'R2', 'children': [{'name': 'b'}, {'name': 'bf', 'final': True}], 'initial': 'bf'}],
           'on_final': lambda: log.append('P')}]
m = HSM(states=states, initial='P', transitions=[['x', 'P_R2_bf', 'P_R2_bf']], on_final=lambda: log.append('machine'))
# R1 is in non-final 'a'; R2 re-enters final 'bf' -> P must NOT be final
m.x()
print(m.state, log)
assert log == [], log
