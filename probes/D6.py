# D6 (C14): markup exports after_state_change from before_state_change.
from transitions.extensions.markup import MarkupMachine
m = MarkupMachine(states=['A', 'B'], initial='A', before_state_change='bsc', after_state_change='asc')
print(m.markup['before_state_change'], m.markup['after_state_change'])
assert m.markup['after_state_change'] == ['asc']
