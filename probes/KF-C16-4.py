# KF-C16-4 (C16, reported, undecided): a transition declared inside a nested state's definition keeps the names it was
# declared with (relative to that state); TransitionGraphSupport._change_state passes them to
# graph.set_previous_transition(self.source, self.dest), so the 'previous' node/edge style is stored under the RELATIVE
# name.  If a top-level state has the same name as the nested source, that unrelated top-level state is styled
# 'previous' (Mermaid styles top-level states only; with the Graphviz backends the real source, a nested node, would
# never get the style).  Property: "none other than the last executed transition's source [is styled] as previous".
# Here the model goes A_B --go--> A_y (declared in A as B -> y): top-level B, never visited, is styled previous.
import re
from transitions.extensions import HierarchicalGraphMachine
def styles(src): return dict(re.findall(r'^\s*Class (\S+) s_(\S+)\s*$', src, flags=re.M))
class M: pass
m = M()
HierarchicalGraphMachine(m, states=[{'name': 'A', 'children': ['B', 'y'], 'initial': 'B',
                                      'transitions': [['go', 'B', 'y']]}, 'B'],
                         initial='A', auto_transitions=False, graph_engine='mermaid')
m.go()
print(m.state, styles(m.get_graph().draw(None)))   # A_y {'A': 'default', 'B': 'previous'}
