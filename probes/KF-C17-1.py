# KF-C17-1 (C17): Timeout.exit / AsyncTimeout.exit cancel the model's timer BEFORE the on_exit callbacks run.
# When an on_exit callback raises, the transition is aborted: the model stays in the state, but its timer is gone
# and on_timeout never fires for a stay that has not ended.  (real timers, 0.1 s; thread-based and asyncio)
import asyncio
import os
import sys
import time
sys.path.insert(0, os.environ.get('VERIF_REPO', '/repo'))
from transitions import Machine                                              # noqa: E402
from transitions.extensions.states import add_state_features, Timeout        # noqa: E402
from transitions.extensions.asyncio import AsyncMachine, AsyncTimeout        # noqa: E402

STATES = ['A', {'name': 'B', 'timeout': 0.1, 'on_timeout': 'note', 'on_exit': 'boom'}]


class Model:
    def __init__(self):
        self.notes = []

    def note(self):
        self.notes.append('timeout')

    def boom(self):
        raise ValueError('boom')


@add_state_features(Timeout)
class TM(Machine):
    pass


@add_state_features(AsyncTimeout)
class AM(AsyncMachine):
    pass


m = Model()
TM(model=m, states=STATES, initial='A')
m.to_B()
try:
    m.to_A()
except ValueError:
    pass
time.sleep(0.3)
print('threads:', m.state, m.notes)
assert m.state == 'B' and m.notes == []          # still in B, the timeout of this stay never fired (the finding)


async def main():
    a = Model()
    AM(model=a, states=STATES, initial='A')
    await a.to_B()
    try:
        await a.to_A()
    except ValueError:
        pass
    await asyncio.sleep(0.3)
    print('asyncio:', a.state, a.notes)
    assert a.state == 'B' and a.notes == []      # the same

asyncio.run(main())
