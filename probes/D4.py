# D4 (C04): NestedAsyncState.scoped_enter/exit leave _scope set when a callback raises -> state names stay prefixed.
import asyncio
from transitions.extensions.asyncio import HierarchicalAsyncMachine as HAM
def boom(): raise RuntimeError('x')
states = [{'name': 'A', 'initial': 'b', 'children': [{'name': 'b', 'on_exit': boom}, 'c']}]
m = HAM(states=states, initial='A', auto_transitions=False, transitions=[['go', 'A_b', 'A_c']])
async def main():
    try:
        await m.go()
    except RuntimeError:
        pass
    st = m.get_state('A_b')
    print(st._scope, st.name)
    assert st.name == 'b', st.name
asyncio.run(main())
