# KF-C10-1 (C10): the hierarchical classes ignore model_attribute in helper names (is_<state>, to_<state>).
# Two HierarchicalMachines with model_attribute 'a' and 'b' on one model, both with a state 'A': the second
# machine's is_A / to_A are never bound (the names already exist) and to_A() drives the FIRST machine.
from transitions.extensions import HierarchicalMachine
from transitions import Machine


class Model:
    pass


m = Model()
m1 = HierarchicalMachine(model=m, states=['A', 'B'], initial='B', model_attribute='a')
m2 = HierarchicalMachine(model=m, states=['A', 'C'], initial='C', model_attribute='b')
assert (m.a, m.b) == ('B', 'C')
assert m.is_A.func.__self__ is m1 and m.to_A.func.__self__ is m1      # bound to machine 1 only
m.to_A()
print(m.a, m.b, m.is_A())
assert (m.a, m.b) == ('A', 'C')          # machine 1 moved, machine 2 cannot be driven to A through the model
assert m.is_A() is True                  # ... and is_A() speaks about attribute 'a'

# the flat classes qualify the names and do not interfere
f = Model()
f1 = Machine(model=f, states=['A', 'B'], initial='B', model_attribute='a')
f2 = Machine(model=f, states=['A', 'C'], initial='C', model_attribute='b')
f.to_b_A()
assert (f.a, f.b) == ('B', 'A') and f.is_b_A() and not f.is_a_A()
