import sys, os, enum
sys.path.insert(0, os.environ.get('VERIF_REPO', '/repo'))
from transitions.extensions import HierarchicalMachine as HM
class Inner(enum.Enum):
    X = 1
    Y = 2
class Outer(enum.Enum):
    IDLE = 0
    WORK = Inner
res = []
m = HM(states=[Outer.IDLE, {'name': Outer.WORK, 'children': Inner,
       'transitions': [{'trigger': 'nxt', 'source': 'X', 'dest': 'Y',
                        'after': lambda: res.append((m.is_WORK_Y(), m.is_WORK(allow_substates=True), m.state))}]}],
       initial=Outer.IDLE, auto_transitions=False)
m.set_state(Inner.X)
m.nxt()
print('inside callback:', res, ' outside:', m.is_WORK_Y(), m.is_WORK(allow_substates=True), m.state)
