import asyncio
from transitions.extensions.asyncio import AsyncMachine
class M(object):
    pass
async def run():
    m1 = M()
    mach = AsyncMachine(model=m1, states=['A', 'B', 'C'], initial='A', queued='model')
    order = []
    async def cb():
        order.append(await m1.to_C())       # deferred: returns True at once
        mach.add_model(m1)                  # adding a registered model again has no effect
        order.append(m1.state)
    mach.on_enter_B(cb)
    assert await m1.to_B() is True
    assert order == [True, 'B'] and m1.state == 'C', (order, m1.state)
asyncio.run(run())
print('ok')
