# KF-C19-3 (C19): a volatile state and one of its ancestors use the same hook name: entering the
# child overwrites the parent's object, leaving the child (parent stays active) deletes the name.
from transitions.extensions import HierarchicalMachine
from transitions.extensions.states import add_state_features, Volatile

@add_state_features(Volatile)
class M(HierarchicalMachine):
    pass

class Model:
    pass

mo = Model()
m = M(mo, states=['A', dict(name='P', hook='h', initial='C',
                            children=[dict(name='C', hook='h'), dict(name='D', hook='g')])],
      initial='A', auto_transitions=False, transitions=[['go', 'A', 'P'], ['cd', 'P_C', 'P_D']])
mo.go()
assert mo.state == 'P_C' and hasattr(mo, 'h')
mo.cd()
print(mo.state, hasattr(mo, 'h'), hasattr(mo, 'g'))
assert mo.state == 'P_D' and hasattr(mo, 'g') and not hasattr(mo, 'h')   # P is active, its object is gone
