# KF-C07-1 (C07), FIXED in /repo as D30 - kept as a regression: `await model.trigger(name)` with a name the
# AsyncMachine does not know, in a state that ignores invalid triggers.  Machine returns False; AsyncMachine used to
# inherit the plain function Machine._get_trigger, whose plain False cannot be awaited (TypeError).  Now
# AsyncMachine._get_trigger is a coroutine function that hands the base result through: False, and AttributeError
# on a state that does not ignore invalid triggers (Coq: Props/C07.v C07_unknown_event).
import asyncio
from transitions import Machine
from transitions.extensions.asyncio import AsyncMachine, HierarchicalAsyncMachine


class Model:
    pass


ms, ma, mh = Model(), Model(), Model()
Machine(ms, states=['A'], initial='A', auto_transitions=False, ignore_invalid_triggers=True)
AsyncMachine(ma, states=['A'], initial='A', auto_transitions=False, ignore_invalid_triggers=True)
HierarchicalAsyncMachine(mh, states=['A'], initial='A', auto_transitions=False, ignore_invalid_triggers=True)
assert ms.trigger('nope') is False


async def go(m):
    try:
        return await m.trigger('nope')
    except BaseException as e:  # noqa
        return type(e).__name__

ra, rh = asyncio.run(go(ma)), asyncio.run(go(mh))
print('Machine: False   AsyncMachine:', ra, '  HierarchicalAsyncMachine:', rh)
assert rh is False
assert ra is False                # was 'TypeError' before the fix

ms2, ma2 = Model(), Model()
Machine(ms2, states=['A'], initial='A', auto_transitions=False)
AsyncMachine(ma2, states=['A'], initial='A', auto_transitions=False)
try:
    ms2.trigger('nope')
    rs2 = None
except AttributeError:
    rs2 = 'AttributeError'
ra2 = asyncio.run(go(ma2))
print('not ignoring -> Machine:', rs2, '  AsyncMachine:', ra2)
assert rs2 == ra2 == 'AttributeError'
