# KF-C07-1 (C07): `await model.trigger(name)` with a name the AsyncMachine does not know, in a state that
# ignores invalid triggers: Machine returns False; AsyncMachine inherits the plain function
# Machine._get_trigger, which returns the plain value False - awaiting it raises TypeError.
# (HierarchicalAsyncMachine binds the coroutine function trigger_event instead and returns False.)
import asyncio
from transitions import Machine
from transitions.extensions.asyncio import AsyncMachine, HierarchicalAsyncMachine


class Model:
    pass


ms, ma, mh = Model(), Model(), Model()
Machine(ms, states=['A'], initial='A', auto_transitions=False, ignore_invalid_triggers=True)
AsyncMachine(ma, states=['A'], initial='A', auto_transitions=False, ignore_invalid_triggers=True)
HierarchicalAsyncMachine(mh, states=['A'], initial='A', auto_transitions=False, ignore_invalid_triggers=True)
assert ms.trigger('nope') is False


async def go(m):
    try:
        return await m.trigger('nope')
    except BaseException as e:  # noqa
        return type(e).__name__

ra, rh = asyncio.run(go(ma)), asyncio.run(go(mh))
print('Machine: False   AsyncMachine:', ra, '  HierarchicalAsyncMachine:', rh)
assert rh is False
assert ra == 'TypeError'          # the finding
