# KF-C11-4 (C11): a model that is removed and added again keeps the helper attributes it had; helpers of an event
# deleted in between stay bound to the deleted Event object (remove_model does not unbind, add_model skips
# existing attributes): the re-registered model's helpers do not mirror the machine.
import warnings
from transitions import Machine
warnings.simplefilter('ignore')
class Mo(object):
    pass
m = Machine(model=None, states=['A', 'B'], initial='A', auto_transitions=False)
m.add_transition('go', 'A', 'B')
mo = Mo()
m.add_model(mo)
m.remove_model(mo)
m.remove_transition('go')            # the event disappears from the machine
assert 'go' not in m.events
m.add_model(mo)                      # registered again
print('machine events:', sorted(m.events), '| model still has go():', hasattr(mo, 'go'), '| may_go:', hasattr(mo, 'may_go'))
try:
    print('mo.go() ->', mo.go())
except Exception as ex:
    print('mo.go() raised', type(ex).__name__, ex)
