# D23 (C14): a nested state's on_final callbacks are not exported -> lost on round trip.
from transitions.extensions.markup import HierarchicalMarkupMachine as HMM
m = HMM(states=[{'name': 'A', 'on_final': 'done', 'children': [{'name': 'x', 'final': True}]}], initial='A')
sd = [s for s in m.markup['states'] if s['name'] == 'A'][0]
print(sd)
assert sd.get('on_final') == ['done'], sd
