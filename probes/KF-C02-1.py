# KF-C02-1 (C02): a state entered by one region's transition is exited by a later region's transition of the
# same event ("no state is entered and afterwards exited within the processing of one event" fails by design).
from transitions.extensions import HierarchicalMachine as HSM
log = []
def rec(tag):
    return lambda: log.append(tag)
states = [{'name': 'P', 'parallel': [
            {'name': 'R1', 'initial': 'a', 'children': ['a', {'name': 'a2', 'on_enter': rec('enter a2'), 'on_exit': rec('exit a2')}]},
            {'name': 'R2', 'initial': 'b', 'children': ['b']}]},
          'OUT']
m = HSM(states=states, initial='P', auto_transitions=False,
        transitions=[['go', 'P_R1_a', 'P_R1_a2'], ['go', 'P_R2_b', 'OUT']])
m.go()
print(m.state, log)
