# KF-C16-2 (C16, reported, undecided): an on_exit callback that regenerates the graphs (add_transition / add_states /
# remove_transition call model.get_graph(force_new=True)) while a transition is being executed: the fresh graph styles
# the state the model is in at that moment (the source, still) 'active'; TransitionGraphSupport._change_state then
# styles the new state 'active' on the new graph as well and the 'previous' styling is lost.  Afterwards the model is
# in B but A and B are both styled active.  Property: "no state other than the model's current state(s) is styled
# active".  (The same callback as on_enter is harmless: the fresh graph is made when the model is already in B.)
import re
from transitions.extensions import GraphMachine, HierarchicalGraphMachine
def styles(src): return dict(re.findall(r'^\s*Class (\S+) s_(\S+)\s*$', src, flags=re.M))
for cls in (GraphMachine, HierarchicalGraphMachine):
    class M:
        def leave(self): self.machine.add_transition('z', 'C', 'D')
    m = M()
    m.machine = cls(m, states=[{'name': 'A', 'on_exit': 'leave'}, 'B', 'C', 'D'], initial='A',
                    transitions=[['go', 'A', 'B']], auto_transitions=False, graph_engine='mermaid')
    m.go()
    print(cls.__name__, m.state, styles(m.get_graph().draw(None)))
