# KF-C06-3 (C06, candidate): LockedMachine - after remove_model(m) the model keeps its trigger methods, but
# model_context_map[id(m)] is an empty defaultdict entry: LockedEvent.trigger enters NOTHING around the event.
# The machine contexts are then entered and left piecewise by the inner public-method calls
# (get_model_state, callbacks, set_state, ...), so another thread can be served between two callbacks of this
# event: processing of two calls overlaps.  Shown single-threaded by the context log, and with a second thread
# that is admitted between the 'before' and the 'after' callback of the event.
import os, sys, threading
sys.path.insert(0, os.path.dirname(os.path.abspath(__file__)))
from _c06_ctx import Ctx, Model
from transitions.extensions import LockedMachine

log = []
m1, m2 = Model(), Model()
m = LockedMachine(model=None, states=['A', 'B'], initial='A', auto_transitions=False,
                  machine_context=[Ctx('machine', log)])
m.add_model(m1)
m.add_model(m2)
m.add_transition('go', 'A', 'B', before=lambda: log.append('before go'), after=lambda: log.append('after go'))
m.remove_model(m2)
del log[:]
m2.go()
print(log)
i, j = log.index('before go'), log.index('after go')
assert log[0] == 'enter machine' and log[1] == 'exit machine'            # not held around the event ...
assert 'exit machine' in log[i:j] and 'enter machine' in log[i:j]          # ... and released between two callbacks

# two threads: a machine_context that is a real lock; when thread A leaves it after its 'before' callback the
# context hands over to thread B (no timing involved): B's whole event is processed between A's callbacks
order = []
gate_b, b_done = threading.Event(), threading.Event()
x1, x2 = Model(), Model()


class HandOver:
    def __init__(self):
        self.lock = threading.Lock()
        self.armed = False

    def __enter__(self):
        self.lock.acquire()

    def __exit__(self, *exc):
        self.lock.release()
        if self.armed and threading.current_thread() is threading.main_thread():
            self.armed = False
            gate_b.set()             # B may go now ...
            b_done.wait(10)          # ... and A continues when B's event is complete


ho = HandOver()


def before():
    order.append('A before')
    ho.armed = True


mm = LockedMachine(model=None, states=['A', 'B'], initial='A', auto_transitions=False, machine_context=[ho])
mm.add_model([x1, x2])
mm.add_transition('go', 'A', 'B', before=before, after=lambda: order.append('A after'))
mm.add_transition('ping', 'A', 'B', before=lambda: order.append('B whole event'))
mm.remove_model(x2)


def thread_b():
    gate_b.wait(10)
    x1.ping()
    b_done.set()


tb = threading.Thread(target=thread_b)
tb.start()
x2.go()                              # event on the removed model, thread A (main thread)
tb.join()
print(order)
assert order == ['A before', 'B whole event', 'A after']                   # B's event ran inside A's
assert x1.state == 'B' and x2.state == 'B'

# the same program on a registered model: A's event is atomic, B is admitted only afterwards
order[:] = []
gate_b.clear(); b_done.clear()
y1, y2 = Model(), Model()
ho2 = HandOver()
ho = ho2
m3 = LockedMachine(model=None, states=['A', 'B'], initial='A', auto_transitions=False, machine_context=[ho2])
m3.add_model([y1, y2])
m3.add_transition('go', 'A', 'B', before=before, after=lambda: order.append('A after'))
m3.add_transition('ping', 'A', 'B', before=lambda: order.append('B whole event'))
tb = threading.Thread(target=lambda: (gate_b.wait(10), y1.ping(), b_done.set()))
tb.start()
y2.go()
tb.join()
print(order)
assert order == ['A before', 'A after', 'B whole event']
