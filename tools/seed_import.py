#!/usr/bin/env python3
"""Verify a seeded change delivered under /tmp/seed-out/<prop>/<x>/ in the scratch worktree /tmp/seed-<prop>
(suite passes with the change, demo fails with it, demo passes without it) and copy it to /verif/seeded/<prop>/<x>/."""
import json, os, shutil, subprocess, sys
V = os.path.dirname(os.path.dirname(os.path.abspath(__file__)))


def sh(cmd, cwd=None):
    p = subprocess.run(cmd, cwd=cwd, shell=True, stdout=subprocess.PIPE, stderr=subprocess.STDOUT, text=True, timeout=1800)
    return p.returncode, p.stdout


SRC = os.environ.get('SEED_SRC', '/tmp/seed-out')
SUFFIX = os.environ.get('SEED_SUFFIX', '')
for prop in sys.argv[1:]:
    wt = os.environ.get('SEED_WT', '/tmp/seed-%s' % prop)
    for x in sorted(os.listdir('%s/%s' % (SRC, prop))):
        d = '%s/%s/%s' % (SRC, prop, x)
        if not os.path.isfile(os.path.join(d, 'patch.diff')):
            continue
        sh('git checkout -- . && git clean -fdq transitions', wt)
        ran = []
        rc0, out0 = sh('PYTHONPATH=%s /venv/bin/python %s/demo.py' % (wt, d), d)
        ran.append(('demo on unmodified library', rc0))
        rc, out = sh('git apply %s/patch.diff' % d, wt)
        if rc != 0:
            print(prop, x, 'PATCH FAILS', out[:200]); continue
        rc1, out1 = sh('PYTHONPATH=%s /venv/bin/python %s/demo.py' % (wt, d), d)
        ran.append(('demo on modified library', rc1))
        rc2, out2 = sh('/venv/bin/python -m pytest -q -p no:cacheprovider --timeout=900 2>&1 | tail -1', wt)
        ran.append(('suite on modified library', out2.strip()))
        sh('git checkout -- . && git clean -fdq transitions', wt)
        ok = rc0 == 0 and rc1 != 0 and '1368 passed' in out2 and 'failed' not in out2
        print(prop, x, 'OK' if ok else 'REJECTED', ran)
        if ok:
            dst = os.path.join(V, 'seeded', prop, x + SUFFIX)
            os.makedirs(dst, exist_ok=True)
            for f in ('patch.diff', 'demo.py'):
                shutil.copy(os.path.join(d, f), dst)
            meta = json.load(open(os.path.join(d, 'meta.json'))) if os.path.exists(os.path.join(d, 'meta.json')) else {}
            meta['property'] = prop
            meta['verified_by_coordinator'] = [list(r) for r in ran]
            meta['origin'] = 'fresh sub-agent given only the property text and a scratch worktree'
            json.dump(meta, open(os.path.join(dst, 'meta.json'), 'w'), indent=1)
