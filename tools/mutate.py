#!/usr/bin/env python3
"""Mutation sweep used to ASSESS the checks (not a check itself): small syntactic mutants of transitions/*.py that
still pass the pinned test suite are run against the quick checks of the properties their file belongs to; a mutant
that survives both is either equivalent or a gap of the checks and is listed for inspection.

usage: tools/mutate.py <n> [seed] [file-substring]      results: /tmp/mutate/<seed>/results.jsonl
Works on scratch copies of /repo only."""
import ast, json, os, random, shutil, subprocess, sys, time
from concurrent.futures import ThreadPoolExecutor

V = os.path.dirname(os.path.dirname(os.path.abspath(__file__)))
REPO = '/repo'
FILES = {
    'transitions/core.py': ['C01', 'C04', 'C05', 'C09', 'C10', 'C11', 'C12', 'C13', 'C18'],
    'transitions/extensions/nesting.py': ['C02', 'C03', 'C04', 'C05', 'C11', 'C12', 'C13', 'C18', 'C09'],
    'transitions/extensions/asyncio.py': ['C07', 'C08', 'C09', 'C12', 'C17', 'C16', 'C02', 'C03', 'C04', 'C18', 'C05', 'C01'],
    'transitions/extensions/locking.py': ['C06', 'C09', 'C10', 'C15', 'C04'],
    'transitions/extensions/markup.py': ['C14', 'C16', 'C13'],
    'transitions/extensions/diagrams.py': ['C16', 'C10', 'C15', 'C09'],
    'transitions/extensions/diagrams_base.py': ['C16'],
    'transitions/extensions/diagrams_mermaid.py': ['C16'],
    'transitions/extensions/states.py': ['C17', 'C19'],
    'transitions/extensions/factory.py': ['C09', 'C15', 'C16'],
}


def candidates(path):
    """(description, lineno, col, end_col, replacement) single-line textual edits located through the AST"""
    src = open(os.path.join(REPO, path)).read()
    lines = src.split('\n')
    tree = ast.parse(src)
    out = []

    def seg(node):
        if node.lineno != node.end_lineno:
            return None
        return lines[node.lineno - 1][node.col_offset:node.end_col_offset]
    for node in ast.walk(tree):
        if isinstance(node, ast.Compare) and len(node.ops) == 1 and node.lineno == node.end_lineno:
            op = node.ops[0]
            left_end = node.left.end_col_offset
            right_start = node.comparators[0].col_offset
            if node.left.end_lineno != node.lineno or node.comparators[0].lineno != node.lineno:
                continue
            mid = lines[node.lineno - 1][left_end:right_start]
            swaps = {ast.Is: (' is ', ' is not '), ast.IsNot: (' is not ', ' is '), ast.Eq: (' == ', ' != '),
                     ast.NotEq: (' != ', ' == '), ast.In: (' in ', ' not in '), ast.NotIn: (' not in ', ' in '),
                     ast.Lt: (' < ', ' <= '), ast.LtE: (' <= ', ' < '), ast.Gt: (' > ', ' >= '), ast.GtE: (' >= ', ' > ')}
            for k, (a, b) in swaps.items():
                if isinstance(op, k) and mid == a:
                    out.append(('cmp %s->%s' % (a.strip(), b.strip()), node.lineno, left_end, right_start, b))
        elif isinstance(node, ast.BoolOp) and node.lineno == node.end_lineno and len(node.values) == 2:
            a, b = node.values
            mid = lines[node.lineno - 1][a.end_col_offset:b.col_offset]
            if mid == ' and ':
                out.append(('and->or', node.lineno, a.end_col_offset, b.col_offset, ' or '))
            elif mid == ' or ':
                out.append(('or->and', node.lineno, a.end_col_offset, b.col_offset, ' and '))
        elif isinstance(node, ast.UnaryOp) and isinstance(node.op, ast.Not) and node.lineno == node.end_lineno:
            s = seg(node)
            if s and s.startswith('not '):
                out.append(('drop not', node.lineno, node.col_offset, node.col_offset + 4, ''))
        elif isinstance(node, (ast.Continue, ast.Break)):
            new = 'break' if isinstance(node, ast.Continue) else 'continue'
            out.append(('%s' % new, node.lineno, node.col_offset, node.end_col_offset, new))
        elif isinstance(node, ast.Constant) and node.value is True and node.lineno == node.end_lineno:
            out.append(('True->False', node.lineno, node.col_offset, node.end_col_offset, 'False'))
        elif isinstance(node, ast.Constant) and node.value is False and node.lineno == node.end_lineno:
            out.append(('False->True', node.lineno, node.col_offset, node.end_col_offset, 'True'))
        elif isinstance(node, ast.Constant) and node.value == 0 and isinstance(node.value, int) and not isinstance(node.value, bool):
            out.append(('0->1', node.lineno, node.col_offset, node.end_col_offset, '1'))
        elif isinstance(node, ast.Constant) and node.value == 1 and isinstance(node.value, int) and not isinstance(node.value, bool):
            out.append(('1->0', node.lineno, node.col_offset, node.end_col_offset, '0'))
        elif isinstance(node, ast.If) and node.test.lineno == node.test.end_lineno:
            t = node.test
            s = seg(t)
            if s and not s.startswith('not '):
                out.append(('if negated', t.lineno, t.col_offset, t.end_col_offset, 'not (%s)' % s))
        elif isinstance(node, (ast.Expr, ast.Assign, ast.AugAssign)) and node.lineno == node.end_lineno:
            if isinstance(node, ast.Expr) and isinstance(node.value, ast.Constant):
                continue        # docstring
            s = seg(node)
            if s and 'LOGGER' not in s and 'warn' not in s:
                out.append(('statement removed', node.lineno, node.col_offset, node.end_col_offset, 'pass'))
        elif isinstance(node, ast.Return) and node.value is not None and node.lineno == node.end_lineno:
            s = seg(node.value)
            if s not in ('None', 'True', 'False'):
                out.append(('return None', node.lineno, node.value.col_offset, node.value.end_col_offset, 'None'))
    return out


def run(cmd, cwd=None, timeout=900, env=None):
    try:
        p = subprocess.run(cmd, cwd=cwd, shell=True, stdout=subprocess.PIPE, stderr=subprocess.STDOUT, text=True,
                           timeout=timeout, env=env)
        return p.returncode, p.stdout
    except subprocess.TimeoutExpired:
        return 124, 'timeout'


def one(job):
    idx, path, (desc, ln, c0, c1, new), outdir = job
    work = os.path.join(outdir, 'w%d' % idx)
    shutil.rmtree(work, ignore_errors=True)
    shutil.copytree(REPO, work, ignore=shutil.ignore_patterns('.git', '__pycache__', '.pytest_cache'))
    f = os.path.join(work, path)
    lines = open(f).read().split('\n')
    old = lines[ln - 1]
    lines[ln - 1] = old[:c0] + new + old[c1:]
    open(f, 'w').write('\n'.join(lines))
    rec = dict(idx=idx, file=path, line=ln, desc=desc, old=old.strip(), new=lines[ln - 1].strip())
    rc, out = run('/venv/bin/python -c "import transitions, transitions.extensions"', cwd=work, timeout=60)
    if rc != 0:
        rec['verdict'] = 'import fails'
        shutil.rmtree(work, ignore_errors=True)
        return rec
    rc, out = run('/venv/bin/python -m pytest -q -x -p no:cacheprovider --timeout=120 2>&1 | tail -3', cwd=work, timeout=600)
    if '1368 passed' not in out:
        rec['verdict'] = 'killed by suite'
        shutil.rmtree(work, ignore_errors=True)
        return rec
    caught = []
    for pid in FILES[path]:
        env = dict(os.environ, VERIF_REPO=work)
        rc, out = run('./check %s --tier quick' % pid, cwd=V, timeout=900, env=env)
        if rc != 0 and 'VIOLATION' in out:
            caught.append(pid)
            break
    rec['verdict'] = 'caught by %s' % caught[0] if caught else 'SURVIVED'
    shutil.rmtree(work, ignore_errors=True)
    return rec


def main():
    n = int(sys.argv[1])
    seed = int(sys.argv[2]) if len(sys.argv) > 2 else 1
    only = sys.argv[3] if len(sys.argv) > 3 else ''
    rng = random.Random(seed)
    pool = []
    for path in FILES:
        if only in path:
            pool += [(path, c) for c in candidates(path)]
    rng.shuffle(pool)
    outdir = '/tmp/mutate/%d' % seed
    os.makedirs(outdir, exist_ok=True)
    jobs = [(i, p, c, outdir) for i, (p, c) in enumerate(pool[:n])]
    print('candidates', len(pool), 'running', len(jobs))
    t0 = time.time()
    with open(os.path.join(outdir, 'results.jsonl'), 'a') as f, ThreadPoolExecutor(int(os.environ.get('MUT_PAR', '4'))) as ex:
        for rec in ex.map(one, jobs):
            f.write(json.dumps(rec) + '\n')
            f.flush()
            print('%4d %-18s %s:%d %s | %s -> %s' % (rec['idx'], rec['verdict'], os.path.basename(rec['file']), rec['line'],
                                                     rec['desc'], rec['old'][:60], rec['new'][:60]), flush=True)
    print('done in %.0fs' % (time.time() - t0))


if __name__ == '__main__':
    main()
