#!/usr/bin/env python3
"""print the theorem / example names of coq/Props/Cxx.v (Appendix B of DESIGN.md is generated with this)"""
import os, re, textwrap
V = os.path.dirname(os.path.dirname(os.path.abspath(__file__)))
for i in range(1, 20):
    pid = 'C%02d' % i
    txt = open(os.path.join(V, 'coq', 'Props', pid + '.v')).read()
    names = re.findall(r'^\s*(?:Theorem|Lemma|Corollary|Example)\s+(\w+)', txt, flags=re.M)
    print('* **%s** (%d): ' % (pid, len(names)) + textwrap.fill(', '.join('`%s`' % n for n in names), 112, subsequent_indent='  '))
