#!/usr/bin/env python3
"""audit the seeded changes against the CURRENT /repo: does each patch still apply, and does its demo still fail with
the patch applied (later fix: commits can neutralise a seeded change or move the lines it touches)?"""
import glob, json, os, subprocess, shutil
V = os.path.dirname(os.path.dirname(os.path.abspath(__file__)))
W = '/tmp/seed-audit-%d' % os.getpid()
subprocess.run('rm -rf %s && git clone -q /repo %s' % (W, W), shell=True, check=True)
try:
    for d in sorted(glob.glob(os.path.join(V, 'seeded', '*', '*'))):
        if not os.path.isfile(os.path.join(d, 'patch.diff')):
            continue
        tag = os.path.relpath(d, os.path.join(V, 'seeded'))
        subprocess.run('git checkout -q -- . && git clean -fdq', shell=True, cwd=W)
        r = subprocess.run('git apply %s/patch.diff' % d, shell=True, cwd=W, capture_output=True, text=True)
        if r.returncode != 0:
            print(tag, 'PATCH DOES NOT APPLY')
            continue
        demo = [f for f in ('demo.py',) if os.path.exists(os.path.join(d, f))]
        if not demo:
            print(tag, 'no demo')
            continue
        try:
            r = subprocess.run('PYTHONPATH=%s /venv/bin/python demo.py' % W, shell=True, cwd=d, capture_output=True, text=True, timeout=120)
            rc = r.returncode
        except subprocess.TimeoutExpired:
            rc = 'timeout'
        if rc == 0:
            print(tag, 'DEMO PASSES WITH THE CHANGE (neutralised?)')
finally:
    shutil.rmtree(W, ignore_errors=True)
print('audit done')
