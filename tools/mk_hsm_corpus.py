#!/usr/bin/env python3
"""handcrafted hierarchical cases that run first on every C02 / C03 run (corpus/C02, corpus/C03): shapes the random
generator reaches rarely.  Re-run after changing the case format."""
import json, os, copy
V = os.path.dirname(os.path.dirname(os.path.abspath(__file__)))
cb = [100]


def fresh():
    cb[0] += 1
    return cb[0]


def sd(name, children=(), initial=(), events=(), final=False, ignore=None):
    return dict(name=name, enter=[fresh()], exit=[fresh()], onfinal=[], final=final, ignore=ignore, initial=list(initial),
                events=[(e, ts) for e, ts in events], children=list(children))


def tr(src, dst, conds=()):
    return dict(src=list(src), dst=None if dst is None else list(dst), prepare=[fresh()], conds=[(c, t) for c, t in conds],
                before=[fresh()], after=[fresh()])


def case(states, events, init, history, cls='HierarchicalMachine', bycb=None, **extra):
    m = dict(states=states, events=events, prepare_event=[], before_sc=[], after_sc=[], finalize=[fresh()], on_exception=[],
             on_final=[], ignore=False, send=False)
    c = dict(machine=m, env=dict(default=True, bypos={}, bycb=bycb or {}), model=0, init=init, history=history, cls=cls)
    c.update(extra)
    return c


out = {}
# 1. three regions; the first one's transition leaves the second one's source; the third must still get its turn
for cls in ('HierarchicalMachine', 'LockedHierarchicalMachine', 'HierarchicalGraphMachine'):
    regs = [sd(10 * k, children=[sd(10 * k + 1), sd(10 * k + 2)], initial=[10 * k + 1]) for k in (1, 2, 3)]
    P = sd(1, children=regs, initial=[10, 20, 30])
    ev = [(0, [tr([1, 10, 11], [1, 20, 22]), tr([1, 20, 21], [1, 20, 22]), tr([1, 30, 31], [1, 30, 32])])]
    out['three-regions-second-left-%s' % cls] = case([P, sd(2)], ev, [1], [(0, 0, 100), (0, 0, 101)], cls)
# 2. the same with the transitions declared inside the parallel state's own definition
regs = [sd(10 * k, children=[sd(10 * k + 1), sd(10 * k + 2)], initial=[10 * k + 1]) for k in (1, 2, 3)]
P = sd(1, children=regs, initial=[10, 20, 30],
       events=[(0, [tr([10, 11], [20, 22]), tr([20, 21], [20, 22]), tr([30, 31], [30, 32])])])
out['three-regions-declared-inside'] = case([P, sd(2)], [], [1], [(0, 0, 100), (0, 0, 101)])
# 3. first region leaves the whole parallel state: no other region may run afterwards
regs = [sd(10 * k, children=[sd(10 * k + 1), sd(10 * k + 2)], initial=[10 * k + 1]) for k in (1, 2, 3)]
P = sd(1, children=regs, initial=[10, 20, 30])
ev = [(0, [tr([1, 10, 11], [2]), tr([1, 20, 21], [1, 20, 22]), tr([1, 30, 31], [1, 30, 32])])]
out['first-region-leaves-parallel-state'] = case([P, sd(2)], ev, [1], [(0, 0, 100), (0, 0, 101)])
# 4. middle region blocked by a condition, outer ancestor declares the event too
regs = [sd(10 * k, children=[sd(10 * k + 1), sd(10 * k + 2)], initial=[10 * k + 1]) for k in (1, 2)]
P = sd(1, children=regs, initial=[10, 20])
c1 = fresh()
ev = [(0, [tr([1, 10, 11], [1, 10, 12], conds=[(c1, True)]), tr([1, 20, 21], [1, 20, 22]), tr([1], [2])])]
out['blocked-region-and-ancestor'] = case([P, sd(2)], ev, [1], [(0, 0, 100), (0, 0, 101)], bycb={c1: (False, None, [])})
for pid in ('C02', 'C03'):
    for name, c in out.items():
        json.dump(c, open(os.path.join(V, 'corpus', pid, 'h-%s.json' % name), 'w'), indent=1)
print(len(out), 'cases written')
