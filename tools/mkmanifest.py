#!/usr/bin/env python3
"""Assemble MANIFEST.json from manifest.d/*.json fragments (one per claimed property)."""
import json, os, glob
V = os.path.dirname(os.path.dirname(os.path.abspath(__file__)))
props = [json.loads(l) for l in open(os.path.join(V, 'properties.jsonl'))]
baseline = json.load(open('/root/.vp/BASELINE.json'))['cmd'].replace('<file>', '/tmp/verif-baseline.junit.xml')
checks, na = [], []
for p in props:
    f = os.path.join(V, 'manifest.d', p['id'] + '.json')
    if os.path.exists(f):
        frag = json.load(open(f))
        if frag.get('not_applicable'):
            na.append(dict(property_id=p['id'], reason=frag['not_applicable']))
            continue
        c = dict(property_id=p['id'],
                 quick_cmd='./check %s --tier quick' % p['id'],
                 thorough_cmd='./check %s --tier thorough' % p['id'],
                 evidence_file='/verif/evidence/%s.json' % p['id'],
                 replay_cmd_template='./check %s --replay {path}' % p['id'],
                 engine='coq-model+correspondence')
        c.update(frag)
        checks.append(c)
    else:
        na.append(dict(property_id=p['id'], reason='not claimed yet: the model/theorems/correspondence for this property are not built at this commit (see DESIGN.md section 6 for the plan)'))
m = dict(version=1, setup_cmd='./setup.sh',
         hooks=dict(guard='TRANSITIONS_VERIF_HOOKS', enable='no source hooks: checks drive /repo through its public API (recording callbacks, user-supplied contexts) and substitute timers/event loops from outside',
                    baseline_off_cmd=baseline, source_commits=[], add_only=True),
         engines=[dict(name='coq-model+correspondence', path='/verif/coq, /verif/ocaml, /verif/harness',
                       serves_properties=[c['property_id'] for c in checks],
                       kind_free_text='Gallina model + theorems (Coq 8.16.1), extracted to OCaml, compared with the real library on generated cases')],
         checks=checks, not_applicable=na,
         notes='See DESIGN.md. known_findings.json lists recorded findings and fixes.')
json.dump(m, open(os.path.join(V, 'MANIFEST.json'), 'w'), indent=1)
print('checks:', [c['property_id'] for c in checks], 'n/a:', len(na))
