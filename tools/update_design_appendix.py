#!/usr/bin/env python3
"""rewrite Appendix B of DESIGN.md (theorem names per property, from coq/Props/*.v)"""
import os, subprocess
V = os.path.dirname(os.path.dirname(os.path.abspath(__file__)))
out = subprocess.run(['python3', os.path.join(V, 'tools', 'list_theorems.py')], capture_output=True, text=True).stdout
p = os.path.join(V, 'DESIGN.md')
s = open(p).read()
head = '## Appendix B — theorems per property (generated from coq/Props/*.v by tools/update_design_appendix.py)\n'
block = head + '\nEvery name below is followed by `Print Assumptions` in its file and prints `Closed under the global context`;\n`_refuted` / `_example` / `_nonvacuous` names are machine-checked witnesses (vm_compute), not universally quantified claims.\n\n' + out
if head in s:
    s = s[:s.index(head)]
s = s.rstrip() + '\n\n' + block
open(p, 'w').write(s)
