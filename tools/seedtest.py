#!/usr/bin/env python3
"""Apply each seeded change (seeded/<prop>/<x>/patch.diff) to /repo, run the property's quick check (and optionally
other checks), restore /repo, and write seeded/RESULTS.md.  /repo must be clean before and is clean afterwards."""
import json, os, subprocess, sys, glob, time
V = os.path.dirname(os.path.dirname(os.path.abspath(__file__)))
REPO = '/repo'
# default: work on a scratch copy of /repo (other jobs may be reading /repo); SEED_INPLACE=1 patches /repo itself
INPLACE = os.environ.get('SEED_INPLACE') == '1'
WORK = REPO if INPLACE else '/tmp/seedtest-repo-%d' % os.getpid()    # per run: several runs may be active


def sh(cmd, cwd=None, timeout=3000):
    p = subprocess.run(cmd, cwd=cwd, shell=True, stdout=subprocess.PIPE, stderr=subprocess.STDOUT, text=True, timeout=timeout)
    return p.returncode, p.stdout


def main():
    only = sys.argv[1:]
    rc, out = sh('git status --porcelain', REPO)
    if out.strip():
        print('refusing: /repo is not clean'); sys.exit(2)
    if not INPLACE:
        sh('rm -rf %s && cp -r %s %s' % (WORK, REPO, WORK))
    rows = []
    for d in sorted(glob.glob(os.path.join(V, 'seeded', '*', '*'))):
        if not os.path.isfile(os.path.join(d, 'patch.diff')):
            continue
        prop = os.path.basename(os.path.dirname(d)).split('-')[0]
        tag = os.path.relpath(d, os.path.join(V, 'seeded'))
        if only and not any(o in tag for o in only):
            continue
        meta = json.load(open(os.path.join(d, 'meta.json'))) if os.path.exists(os.path.join(d, 'meta.json')) else {}
        checks = meta.get('checks', [prop])
        try:
            rc, out = sh('git apply %s' % os.path.join(d, 'patch.diff'), WORK)
            if rc != 0:
                rows.append((tag, 'PATCH DOES NOT APPLY', out.strip()[:100]))
                continue
            res = []
            for c in checks:
                t0 = time.time()
                rc, out = sh('VERIF_REPO=%s ./check %s --tier quick' % (WORK, c), V)
                viol = [l for l in out.split('\n') if l.startswith('VIOLATION')]
                res.append('%s:%s(%.0fs)' % (c, 'CAUGHT' if (rc != 0 and viol) else 'missed', time.time() - t0))
                if viol:
                    res.append(viol[0][:120])
            rows.append((tag, ' '.join(res[:1]), ' | '.join(res[1:])))
        finally:
            sh('git checkout -- .', WORK)
            sh('git clean -fdq transitions', WORK)
    with open(os.path.join(V, 'seeded', 'RESULTS.md'), 'a') as f:
        f.write('\n## run %s\n\n| change | verdict | detail |\n|---|---|---|\n' % time.strftime('%Y-%m-%d %H:%M'))
        for r in rows:
            f.write('| %s | %s | %s |\n' % r)
    for r in rows:
        print(' | '.join(r))
    rc, out = sh('git status --porcelain', REPO)
    assert not out.strip(), 'repo not clean after seedtest!'
    if not INPLACE:
        sh('rm -rf %s' % WORK)


if __name__ == '__main__':
    main()
