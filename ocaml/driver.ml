(* driver.ml — fixed, generic reader/printer around the extracted model.
   Each input line:  <k> <sexp>      where sexp ::= nat | '(' sexp* ')'
   Each output line: the sexp returned by Model.dispatch k sexp.            *)
open Model
(* Model may define its own `string`, `list`... types (extracted inductives): refer to OCaml's via Stdlib *)

let rec nat_of_int n acc = if n <= 0 then acc else nat_of_int (n - 1) (S acc)
let rec int_of_nat n acc = match n with O -> acc | S m -> int_of_nat m (acc + 1)

let parse (s : Stdlib.String.t) (pos : int ref) : sx =
  let n = Stdlib.String.length s in
  let rec skip () = while !pos < n && (s.[!pos] = ' ' || s.[!pos] = '\t') do incr pos done
  and one () : sx =
    skip ();
    if !pos >= n then failwith "eof"
    else if s.[!pos] = '(' then begin
      incr pos;
      let items = ref [] in
      skip ();
      while !pos < n && s.[!pos] <> ')' do
        items := one () :: !items; skip ()
      done;
      if !pos >= n then failwith "unclosed";
      incr pos;
      L (Stdlib.List.rev !items)
    end else begin
      let st = !pos in
      while !pos < n && s.[!pos] >= '0' && s.[!pos] <= '9' do incr pos done;
      if !pos = st then failwith "bad token";
      N (nat_of_int (int_of_string (Stdlib.String.sub s st (!pos - st))) O)
    end
  in one ()

let rec print (b : Buffer.t) (x : sx) : unit =
  match x with
  | N n -> Buffer.add_string b (string_of_int (int_of_nat n 0))
  | L l ->
    Buffer.add_char b '(';
    Stdlib.List.iteri (fun i y -> if i > 0 then Buffer.add_char b ' '; print b y) l;
    Buffer.add_char b ')'

let () =
  try
    while true do
      let line = input_line stdin in
      if Stdlib.String.length line > 0 then begin
        let pos = ref 0 in
        let k = parse line pos in
        let x = parse line pos in
        let kn = match k with N n -> n | L _ -> failwith "kind" in
        let b = Buffer.create 1024 in
        print b (dispatch kn x);
        print_endline (Buffer.contents b)
      end
    done
  with End_of_file -> ()
