#!/bin/sh
# Build the Coq development (full .vo build) and the extracted driver, offline.
cd "$(dirname "$0")" || exit 2
set -e
cd coq
VFILES=$(ls Model/*.v Proofs/*.v Props/*.v Generated/*.v Extract/*.v 2>/dev/null | sort)
coq_makefile -f _CoqProject $VFILES -o Makefile
printf '%s' "$(echo "$VFILES" | tr ' ' '\n')" > .vfiles
timeout 3000 make -j16
cd ../ocaml
make
